"""Mechanical extraction of real function / struct text from /repo sources.

Brace / string / comment aware scanner (no regex-only cutting).  Everything a
unit template asks for is cut verbatim; the only edits are the logged ones:
  * visibility stripped from the fn header, return value named,
  * contract clauses spliced between header and body,
  * loop invariants spliced between the n-th loop header and its `{`,
  * literal `replace` rules (must match exactly the stated number of times).
A directive that cannot be honoured raises AnchorLost (-> exit 2, never alarm).
"""
import hashlib
import re


class AnchorLost(Exception):
    pass


def _mask(src):
    """Return a same-length string where comments, string/char literals are
    replaced by spaces (newlines kept) so structural scanning is safe."""
    out = list(src)
    i, n = 0, len(src)

    def blank(a, b):
        for k in range(a, b):
            if out[k] != '\n':
                out[k] = ' '

    while i < n:
        c = src[i]
        if src.startswith('//', i):
            j = src.find('\n', i)
            j = n if j < 0 else j
            blank(i, j)
            i = j
        elif src.startswith('/*', i):
            depth, j = 1, i + 2
            while j < n and depth:
                if src.startswith('/*', j):
                    depth += 1
                    j += 2
                elif src.startswith('*/', j):
                    depth -= 1
                    j += 2
                else:
                    j += 1
            blank(i, j)
            i = j
        elif c == '"':
            j = i + 1
            while j < n and src[j] != '"':
                j += 2 if src[j] == '\\' else 1
            blank(i + 1, j)
            i = j + 1
        elif c == 'r' and re.match(r'r#*"', src[i:i + 8]) and (i == 0 or not (src[i - 1].isalnum() or src[i - 1] == '_')):
            m = re.match(r'r(#*)"', src[i:])
            close = '"' + m.group(1)
            j = src.find(close, i + len(m.group(0)))
            j = n if j < 0 else j
            blank(i + len(m.group(0)), j)
            i = j + len(close)
        elif c == "'":
            # char literal or lifetime
            m = re.match(r"'(\\.[^']*|[^'\\])'", src[i:])
            if m:
                blank(i + 1, i + len(m.group(0)) - 1)
                i += len(m.group(0))
            else:
                i += 1
        else:
            i += 1
    return ''.join(out)


def _match_brace(masked, open_idx):
    assert masked[open_idx] == '{'
    depth = 0
    for j in range(open_idx, len(masked)):
        ch = masked[j]
        if ch == '{':
            depth += 1
        elif ch == '}':
            depth -= 1
            if depth == 0:
                return j
    raise AnchorLost('unbalanced braces')


def _line_of(src, idx):
    return src.count('\n', 0, idx) + 1


class Source:
    def __init__(self, path, text=None):
        self.path = path
        self.text = text if text is not None else open(path).read()
        self.masked = _mask(self.text)

    # -- impl blocks -------------------------------------------------------
    def impl_blocks(self):
        """Yield (header_text_normalised, body_open, body_close) for every impl."""
        for m in re.finditer(r'(?m)^[ \t]*(?:unsafe\s+)?impl\b', self.masked):
            start = m.start()
            ob = self.masked.find('{', m.end())
            if ob < 0:
                continue
            header = ' '.join(self.text[start:ob].split())
            yield header, ob, _match_brace(self.masked, ob)

    def find_fn(self, impl_sub, name, nth=0):
        """Locate `fn name` (nth match) inside an impl whose normalised header
        contains impl_sub ('' or '-' = free function at any depth)."""
        spans = []
        if impl_sub in ('', '-'):
            spans = [(0, len(self.text))]
        else:
            for header, ob, cb in self.impl_blocks():
                if impl_sub in header:
                    spans.append((ob, cb))
        if not spans:
            raise AnchorLost('impl header containing %r not found in %s' % (impl_sub, self.path))
        hits = []
        pat = re.compile(r'\bfn\s+' + re.escape(name) + r'\b')
        for a, b in spans:
            for m in pat.finditer(self.masked, a, b):
                hits.append(m.start())
        hits = sorted(set(hits))
        if len(hits) <= nth:
            raise AnchorLost('fn %s (#%d) not found in impl %r of %s' % (name, nth, impl_sub, self.path))
        fn_kw = hits[nth]
        # extend left over visibility / qualifiers on the same item
        line_start = self.text.rfind('\n', 0, fn_kw) + 1
        prefix = self.masked[line_start:fn_kw]
        if not re.fullmatch(r'\s*(pub(\([^)]*\))?\s+)?(const\s+)?(unsafe\s+)?', prefix):
            raise AnchorLost('unexpected text before fn %s: %r' % (name, prefix))
        start = line_start + (len(prefix) - len(prefix.lstrip()))
        ob = self._body_open(fn_kw)
        cb = _match_brace(self.masked, ob)
        return start, ob, cb

    def _body_open(self, fn_kw):
        depth = 0
        for j in range(fn_kw, len(self.masked)):
            ch = self.masked[j]
            if ch in '([':
                depth += 1
            elif ch in ')]':
                depth -= 1
            elif ch == '{' and depth == 0:
                return j
            elif ch == ';' and depth == 0:
                raise AnchorLost('fn without body')
        raise AnchorLost('fn body not found')

    def find_item(self, kind, name):
        m = re.search(r'(?m)^[ \t]*(pub(\([^)]*\))?\s+)?' + kind + r'\s+' + re.escape(name) + r'\b', self.masked)
        if not m:
            raise AnchorLost('%s %s not found in %s' % (kind, name, self.path))
        start = m.start() + (len(m.group(0)) - len(m.group(0).lstrip()))
        # struct may end with ; (tuple/unit) or {...}
        j = m.end()
        depth = 0
        while j < len(self.masked):
            ch = self.masked[j]
            if ch in '([<':
                depth += 1 if ch != '<' else 0
            elif ch in ')]':
                depth -= 1
            elif ch == ';' and depth == 0:
                return start, j + 1
            elif ch == '{' and depth == 0:
                return start, _match_brace(self.masked, j) + 1
            j += 1
        raise AnchorLost('%s %s: end not found' % (kind, name))


LOOP_KW = re.compile(r'\b(for|while|loop)\b')


def find_loops(body_text):
    """Return list of (kw_index, body_open_index) for each loop in body_text
    in source order (nested loops included, ordinal = order of keyword)."""
    masked = _mask(body_text)
    res = []
    for m in LOOP_KW.finditer(masked):
        kw = m.group(1)
        # `for` in `for<'a>` HRTB or `impl X for Y` cannot occur inside fn bodies we extract
        depth = 0
        j = m.end()
        ob = None
        while j < len(masked):
            ch = masked[j]
            if ch in '([':
                depth += 1
            elif ch in ')]':
                depth -= 1
            elif ch == '{' and depth == 0:
                ob = j
                break
            elif ch == ';' and depth == 0:
                break
            j += 1
        if ob is None:
            continue
        res.append((m.start(), ob))
    return res


def sha(text):
    return hashlib.sha256(text.encode()).hexdigest()[:16]


def cut_fn(src, impl_sub, name, nth=0):
    start, ob, cb = src.find_fn(impl_sub, name, nth)
    header = src.text[start:ob]
    body = src.text[ob:cb + 1]
    return {
        'header': header, 'body': body,
        'line_start': _line_of(src.text, start), 'line_end': _line_of(src.text, cb),
        'sha': sha(src.text[start:cb + 1]),
    }


def name_return(header, ret_name):
    """`-> T` becomes `-> (r: T)`; functions without return type untouched."""
    masked = _mask(header)
    # find top-level '->' outside parens
    depth = 0
    idx = None
    for j, ch in enumerate(masked):
        if ch in '([<' and ch != '<':
            depth += 1
        elif ch in ')]':
            depth -= 1
        elif masked.startswith('->', j) and depth == 0:
            idx = j
    if idx is None:
        return header
    # return type ends at `where` (top-level) or end of header
    rest = header[idx + 2:]
    mrest = masked[idx + 2:]
    wm = re.search(r'\bwhere\b', mrest)
    end = wm.start() if wm else len(rest)
    ty = rest[:end].strip()
    tail = rest[end:]
    return header[:idx] + '-> (' + ret_name + ': ' + ty + ')\n' + tail


def strip_vis(header):
    return re.sub(r'^(\s*)pub(\([^)]*\))?\s+', r'\1', header, count=1)


def split_where(header):
    """Split header into (before_where, where_clause_text) at top-level `where`."""
    masked = _mask(header)
    m = None
    depth = 0
    for mm in re.finditer(r'[(\[)\]]|\bwhere\b', masked):
        t = mm.group(0)
        if t in '([':
            depth += 1
        elif t in ')]':
            depth -= 1
        elif depth == 0:
            m = mm
    if not m:
        return header, ''
    return header[:m.start()], header[m.start():]
