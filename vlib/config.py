"""Per-property check configuration: which Verus units, lemma files and Kani harnesses decide it.

kani entries: (harness file, harness fn, bound label).  A label starting with 'complete' marks a
loop-free / full-domain harness counted as a discharged obligation; anything else is a bounded
stand-in and is reported under coverage.bounded_checks only (never added to `discharged`).
"""

COMMON_TRUST = [
    'Verus 0.2026.09.13 + Z3 (SMT encoding, trigger-based quantifier instantiation)',
    'Kani 0.68 / CBMC 6.11 / CaDiCaL (bit-precise symbolic execution of the MIR of the real crate)',
    'vlib/extract.py + vlib/unit.py: functions are cut verbatim from /repo on every run; every rewrite is logged under coverage.rewrites_applied, every ghost insertion under coverage.ghost_insertions',
    'rustc semantics of the extracted text inside verus! equal its semantics in the crate (same text, contract-only stubs for dependency types, trait-impl methods lifted into inherent impls)',
    'global layout usize is size == 8 (64-bit target)',
]

HASH_TRUST = 'verus/prelude/hashing.rs: std::hash modelled as ONE uninterpreted function of (BuildHasher identity, words written) -- the crate\'s documented "BuildHasher must be stable" requirement; `B: Eq` equality is taken to be structural'
INTVEC_TRUST = 'verus/prelude/intvector.rs: contract-only stub of succinct::IntVector (get/set/len/with_fill/block_with_fill/clone), cross-checked against the real crate by kani harness intvector_stub_set_get (bounded)'
FBS_TRUST = 'verus/prelude/fixedbitset.rs: contract-only stub of fixedbitset::FixedBitSet (put/set/index/clear/ones/bitor/with_capacity), cross-checked by the bloom kani harnesses (bounded)'
PANIC_ASSERTS = 'panicking `assert!/assert_eq!` parameter checks at the top of constructors/union/merge are turned into `requires` (logged rewrite): loosening such a check is not detected by the Verus layer'

QF_QUICK = [
    ('filters__quotientfilter.rs', 'c13_qf_insert_b1r1_f%d' % f, 'bounded(2 slots, 1-bit remainders; all 16 fingerprint sets x this fingerprint)') for f in range(4)
] + [
    ('filters__quotientfilter.rs', 'c13_qf_new_is_empty_layout', 'bounded(4 slots)'),
]
QF_QR = [
    ('filters__quotientfilter.rs', 'c13_qf_quotient_remainder_b2r1', 'complete over all 64-bit hashes for (bq,br)=(2,1); loop-free'),
    ('filters__quotientfilter.rs', 'c13_qf_quotient_remainder_b3r5', 'complete over all 64-bit hashes for (bq,br)=(3,5); loop-free'),
    ('filters__quotientfilter.rs', 'c13_qf_quotient_remainder_b1r63', 'complete over all 64-bit hashes for (bq,br)=(1,63); loop-free'),
    ('filters__quotientfilter.rs', 'c13_qf_quotient_remainder_b4r60', 'complete over all 64-bit hashes for (bq,br)=(4,60); loop-free'),
]
QF_THOROUGH = [
    ('filters__quotientfilter.rs', 'c13_qf_insert_b1r2_f%d' % f, 'bounded(2 slots, 2-bit remainders; all 256 fingerprint sets x this fingerprint)') for f in (0, 3, 5, 6)
] + [
    ('filters__quotientfilter.rs', 'c13_qf_insert_b2r1_f%d' % f, 'bounded(4 slots, 1-bit remainders; all 256 fingerprint sets x this fingerprint)') for f in range(8)
]
QF_UNION_QUICK = [('filters__quotientfilter.rs', 'c06_qf_union_b1r1_a%d' % a, 'bounded(2 slots, 1-bit remainders; receiving set %d, every other set)' % a) for a in (3, 9)] + [
    ('filters__quotientfilter.rs', 'c06_qf_union_b2r1_two_pending_runs_into_empty', 'bounded(4 slots; ONE concrete pair: empty receiver, other = full table whose cluster has two pending run quotients)')]
QF_UNION_THOROUGH = [('filters__quotientfilter.rs', 'c06_qf_union_b2r1_two_pending_runs', 'bounded(4 slots: other = full table with two pending run quotients, every receiving subset)')] + [('filters__quotientfilter.rs', 'c06_qf_union_b1r1_a%d' % a, 'bounded(2 slots, 1-bit remainders; receiving set %d, every other set)' % a) for a in (0, 1, 2, 4, 5, 6, 8, 10, 12)] + [('filters__quotientfilter.rs', 'c06_qf_union_b1r2', 'bounded(2 slots, 2-bit remainders; all pairs of sets)'),
                     ('filters__quotientfilter.rs', 'c06_qf_union_b2r1', 'bounded(4 slots, 1-bit remainders; all pairs of sets)')]

BLOOM_K = [('filters__bloomfilter.rs', 'c01_bloom_insert_query_step_m8', 'bounded(m=8, k=2, 3 keys; every hash function, arbitrary bit array)'),
           ('filters__bloomfilter.rs', 'c06_bloom_union_clear_step', 'bounded(m=7, k=2; arbitrary bit arrays)')]
CUCKOO_K = [('filters__cuckoofilter.rs', 'c14_cuckoo_delete_query_step', 'bounded(2 buckets x 2 slots, 2-bit fingerprints, 3 keys; every hash function, arbitrary table)'),
            ('filters__cuckoofilter.rs', 'c12_cuckoo_restore_state_reverse_order', 'bounded(log <= 3; 2x2 table)')]

HASHITER_K = [('hash_utils.rs', 'hashiter_setup_f_m1_k3', 'bounded(m=1, k=3, 3 keys; every hash function): setup_f + iter_for against the documented formula'),
              ('hash_utils.rs', 'hashiter_setup_f_m4_k3', 'bounded(m=4, k=3)')]
HASHITER_K_THOROUGH = [('hash_utils.rs', 'hashiter_setup_f_m7_k2', 'bounded(m=7, k=2)'),
                       ('filters__bloomfilter.rs', 'c01_bloom_insert_query_step_m7', 'bounded(m=7, k=2, 3 keys; every hash function, arbitrary bit array)')]
CMS_ADD_QUICK = [('countminsketch.rs', 'c02_cms_add_u8_1x1', 'bounded((w,d)=(1,1), u8, 3 keys; every hash function, arbitrary table)'),
                 ('countminsketch.rs', 'c02_cms_add_u8_2x3', 'bounded((w,d)=(2,3), u8)'),
                 ('countminsketch.rs', 'c02_cms_add_u16_2x2', 'bounded((w,d)=(2,2), u16)'),
                 ('countminsketch.rs', 'c02_cms_add_usize_4x1', 'bounded((w,d)=(4,1), usize)'),
                 ('countminsketch.rs', 'c02_cms_add_usize_1x4', 'bounded((w,d)=(1,4), usize)'),
                 ('countminsketch.rs', 'c02_cms_add_is_add_one', 'bounded((w,d)=(2,2), u8)')]
CMS_ADD_THOROUGH = [('countminsketch.rs', 'c02_cms_add_u8_3x2', 'bounded((w,d)=(3,2), u8)'),
                    ('countminsketch.rs', 'c02_cms_add_u32_3x2', 'bounded((w,d)=(3,2), u32)'),
                    ('countminsketch.rs', 'c02_cms_add_u64_2x3', 'bounded((w,d)=(2,3), u64)')]
CMS_MERGE = [('countminsketch.rs', 'c06_cms_merge_u8_2x3', 'bounded((w,d)=(2,3), u8; arbitrary tables)'),
             ('countminsketch.rs', 'c06_cms_merge_u64_3x2', 'bounded((w,d)=(3,2), u64; arbitrary tables)')]
CMS_EMPTY = [('countminsketch.rs', 'c19_cms_is_empty_exact', 'bounded((w,d)=(3,2), u8; arbitrary table)')]

HLL_K = [('hyperloglog__mod.rs', 'c17_hll_add_hashed_b4', 'complete for b=4: all 64-bit hashes, all 16 registers arbitrary'),
         ('hyperloglog__mod.rs', 'c17_hll_add_hashed_b5', 'bounded(b=5: all hashes; two symbolic register positions)'),
         ('hyperloglog__mod.rs', 'c17_hll_add_hashed_b8', 'bounded(b=8: all hashes; two symbolic register positions)'),
         ('hyperloglog__mod.rs', 'c17_hll_add_is_add_hashed', 'bounded(b=4: every hash value)')]
HLL_MERGE = [('hyperloglog__mod.rs', 'c06_hll_merge_b4', 'bounded(b=4: all register contents of both sketches)')]
HLL_TABLES = [('hyperloglog__mod.rs', 'c20_hll_tables_cover_all_precisions', 'complete: the 15 constant table rows are concrete')]

TD15_QUICK = [('tdigest.rs', 'c15_td_endpoints_1', 'bounded(1 centroid; weights 1..4, grid j/4)'),
              ('tdigest.rs', 'c15_td_endpoints_2', 'bounded(2 centroids; weights 1..4, grid j/4)'),
              ('tdigest.rs', 'c15_td_empty', 'complete: empty digest, all q in [0,1], all non-NaN x'),
              ('tdigest.rs', 'c15_td_empty_wrapper', 'complete: public wrapper on an empty digest, all q in [0,1], all non-NaN x'),
              ('tdigest.rs', 'c15_td_merge_empty_backlog_noop', 'bounded(2 centroids)'),
              ('tdigest.rs', 'c15_td_cdf_shape_1', 'bounded(1 centroid; x on j/8)'),
              ('tdigest.rs', 'c15_td_consistent_1', 'bounded(1 centroid, strict knots)'),
              ('tdigest.rs', 'c15_td_concrete_weighted_grid_q', 'bounded(ONE concrete 3-centroid digest with unequal outer weights; q on j/104): range, monotonicity, cdf(quantile(q)) = q in both tails'),
              ('tdigest.rs', 'c15_td_merge_three_concrete_sorted', 'bounded(ONE concrete merge: centroid 5, backlog 6, 1; non-fusing scale function): three entries come out sorted'),
              ('tdigest.rs', 'c15_td_merge_three_grid_sorted', 'bounded(1 centroid + 2 backlog values on an integer grid; non-fusing scale function): sorted, sum kept'),
              ('tdigest.rs', 'c15_td_interpolate_wide_knots', 'bounded(knots -i*2^1021 / j*2^1021, i, j in 0..=7, t on k/8; exact arithmetic): interpolation between knots further apart than f64::MAX stays finite and inside [a, b]'),
              ('tdigest.rs', 'c15_td_first_read_tails', 'bounded(one concrete insert still in the backlog): cdf tails / quantile end points / repeated reads as FIRST read through the public wrapper')]
TD15_THOROUGH = [('tdigest.rs', 'c15_td_endpoints_3', 'bounded(3 centroids)'),
                 ('tdigest.rs', 'c16_td_merge_three_any_schedule', 'bounded(three entries, every fuse schedule): merge leaves means sorted'),
                 ('tdigest.rs', 'c15_td_quantile_shape_1', 'bounded(1 centroid; q on j/32)'),
                 ('tdigest.rs', 'c15_td_quantile_shape_2', 'bounded(2 centroids; q on j/32)'),
                 ('tdigest.rs', 'c15_td_cdf_shape_2', 'bounded(2 centroids; x on j/8)'),
                 ('tdigest.rs', 'c15_td_consistent_2', 'bounded(2 centroids, strict knots)')]
TD16_QUICK = [('tdigest.rs', 'c16_td_insert_weighted_inner', 'complete: all finite x, all finite positive w, all non-NaN min/max (loop-free)'),
              ('tdigest.rs', 'c16_td_insert_weighted_inner_pending', 'bounded(one pending entry + one centroid; weights 1..4, values on j/4: exact arithmetic): mass conserved wherever the insert is parked'),
              ('tdigest.rs', 'c16_td_zero_weight_noop', 'complete: all finite x (loop-free)'),
              ('tdigest.rs', 'c16_td_count_sum_exact', 'bounded(2 centroids; weights 1..4, grid j/4)'),
              ('tdigest.rs', 'c16_td_first_read_sees_backlog', 'bounded(one weighted insert, grid values): first read merges the backlog'),
              ('tdigest.rs', 'c16_td_insert_weighted_wrapper', 'complete: public wrapper, all finite x, all finite positive w (loop-free)'),
              ('tdigest.rs', 'c16_td_insert_weighted_concrete_grid', 'bounded(30 concrete (x, w) pairs with inexact products; constant folding only)'),
              ('tdigest.rs', 'c16_td_overflowing_product_counts', 'bounded(one concrete insert whose product x*w overflows): the weight still counts'),
              ('tdigest.rs', 'c16_td_repeated_value_weighted', 'bounded(two concrete weighted inserts of one value, no read in between)'),
              ('tdigest.rs', 'c19_td_clear_is_fresh', 'bounded(2 centroids + 1 backlog entry): clear() empties the digest'),
              ('tdigest.rs', 'c15_td_empty', 'complete: empty digest')]
TD16_MERGE = [('tdigest.rs', 'c16_td_merge_1_1', 'bounded(1 centroid + 1 backlog entry; adversarial scale function)'),
              ('tdigest.rs', 'c15_td_merge_three_grid_sorted', 'bounded(1 centroid + 2 backlog values on an integer grid; non-fusing scale function): sorted, sum kept'),
              ('tdigest.rs', 'c15_td_merge_three_concrete_sorted', 'bounded(ONE concrete merge of three entries; non-fusing scale function)')]
TD16_THOROUGH = [('tdigest.rs', 'c16_td_merge_two_plus_one_any_schedule', 'bounded(2 sorted centroids + 1 backlog entry on an integer grid, weights 1..4; EVERY fuse schedule)'),
                 ('tdigest.rs', 'c16_td_merge_three_any_schedule', 'bounded(1 centroid + 2 unsorted backlog entries on an integer grid, weights 1..4; EVERY fuse schedule): conservation, sortedness, no new centroids, ranks in [0,1]')]
TD19 = [('tdigest.rs', 'c19_td_clear_is_fresh', 'bounded(2 centroids + 1 backlog entry)')]

PROPS = {}

PROPS['C01'] = {
    'level': 'proof',
    'verus_units': ['hashiter', 'bloom', 'cuckoo', 'quotient_exact', 'compat'],
    'kani': {'quick': HASHITER_K + BLOOM_K + CUCKOO_K + QF_QUICK + QF_UNION_QUICK, 'thorough': HASHITER_K_THOROUGH + QF_THOROUGH + QF_UNION_THOROUGH},
    'explanation': 'Bloom and Cuckoo: Verus proofs (unbounded in sizes, hashers, eviction outcomes) of exact whole-view contracts on the real insert/query/delete/union text + history lemmas (bits only grow; every class covers its live elements). Quotient filter: Verus proof, unbounded in table size and history (unit quotient_exact): the canonical-layout invariant (ghost per-slot displacement d) is inductive over the real scan / insert_internal / insert / union / clear text; the abstract set mem() is independent of the choice of d (layout uniqueness lemma); query == mem; insert adds exactly the class and keeps every other answer; union Ok => exactly the union of both sets; Err => nothing changes; client step functions state the property over these contracts. The Kani one-step harnesses from EVERY canonical state of a small table remain as counterexample engine. HashSet reference implementation (unit compat): the six delegations of src/filters/compat.rs, bodies verbatim inside a re-declared contract trait, proved against the vstd HashSet specifications (insert/contains/len/is_empty/clear); the `extend(iter().cloned())` of union goes through a contract-only stub.',
    'trusted_base': COMMON_TRUST + [HASH_TRUST, INTVEC_TRUST, FBS_TRUST, PANIC_ASSERTS,
                                    'verus/prelude/rng.rs: rand::Rng as an arbitrary-value source (gen_range in [a,b), gen::<bool> arbitrary)',
                                    'HashIterBuilder::setup_f: `(0..k).map(|i| {BODY}).collect()` rewritten to the push loop it denotes (BODY verbatim) and verified; HashIter no-overflow precondition m <= 2^32'],
    'assumptions': ['BuildHasher is stable (same words -> same hash) and `==` on BuildHashers is structural', 'std::collections::HashSet behaves as vstd specifies (obeys_key_model::<T>(), builds_valid_hashers::<S>() assumed); T::clone returns an equal value; `extend(other.iter().cloned())` = union (contract-only stub)', 'histories: each client step proves aset(after) == replay(h + [op]) from aset(before) == replay(h) for the abstract history semantics replay(); lemma_replay_only_inserted / lemma_replay_keeps / lemma_replay_len prove the history statements on replay(); that a run of the real code is the iteration of such steps is the remaining (meta) step'],
    'not_decided': ['BloomFilter with m > 2^32 bits (u64 overflow of h1 + i*h2 + f is excluded by precondition)'],
}

PROPS['C02'] = {
    'level': 'proof',
    'verus_units': ['hashiter', 'cms', 'lemma_cms'],
    'kani': {'quick': HASHITER_K + CMS_ADD_QUICK + CMS_MERGE[:1], 'thorough': HASHITER_K_THOROUGH + CMS_ADD_THOROUGH + CMS_MERGE[1:]},
    'explanation': 'Verus proofs, unbounded in w, d, counter type and hasher, of the whole CountMinSketch API on the real text: add_n/add (n added to exactly the cell of obj in every row, all other cells unchanged, result = min(old cells)+n), query_point (= that minimum), merge (cell-wise sum), clear / constructor (all zero, exactly w*d cells), is_empty; overflow panics are the only preconditions; iterator chains are rewritten to the loops they denote (logged rewrites, closure bodies verbatim). History lemma lemma_cms. Kani one-step contract harnesses from ARBITRARY table contents (bounded (w,d)) remain as counterexample engine and as cross-check of the iterator-chain rewrites with a fully symbolic hasher (bounded in (w,d) and key universe, unbounded in history and counter values); Verus: hash iterator positions in range for all (m,k) and the history lemma (contracts => never underestimates, never exceeds total) for all histories.',
    'trusted_base': COMMON_TRUST + [HASH_TRUST, 'unit cms: the num_traits bounds on the counter type are ONE contract trait `Counter` (exact checked_add or None, min, clone, zero/one)', 'lemma_cms.vrs states the add_n/merge contracts as spec predicates; their correspondence to the Kani assertions is by inspection (same sentences)'],
    'assumptions': ['overflowing adds/merges panic (checked_add().unwrap()) and are excluded by precondition', 'std iterator adaptor semantics (enumerate/zip/map/min/all/collect, vec![x; n]) as stated by the logged rewrites'],
    'not_decided': [],
}

PROPS['C06'] = {
    'level': 'proof',
    'verus_units': ['bloom', 'cuckoo', 'quotient', 'quotient_exact', 'cms', 'hll', 'lemma_cms'],
    'kani': {'quick': BLOOM_K[1:] + CMS_MERGE[:1] + HLL_MERGE + QF_UNION_QUICK, 'thorough': CMS_MERGE[1:] + QF_UNION_THOROUGH},
    'explanation': 'merge contracts over the abstract view, Verus (unbounded): Bloom union = bitwise or, Cuckoo union = class-wise sum of multisets with full rollback on Err, CMS merge = cell-wise checked sum, HLL merge = register-wise max, Quotient union Err => restored, Ok => abstract set == union of both abstract sets and the canonical-layout invariant holds again (unit quotient_exact: cluster decoding with the pending-quotient queue proved against the counting lemma; `pop_front().unwrap()` and the shift-chain panic proved unreachable). Bounded (Kani, counterexample engine): Quotient union Ok => canonical layout of A u B, Err iff it does not fit. Commutativity/associativity/idempotence follow from or / + / max / set union on the views.',
    'trusted_base': COMMON_TRUST + [HASH_TRUST, INTVEC_TRUST, FBS_TRUST, PANIC_ASSERTS],
    'assumptions': ['"other operand unchanged" is the &Self borrow; the five types hold no interior mutability', 'quotient filter: Err iff the union of the two class sets has more elements than slots is proved (finite-set cardinality, lemma_union_overflow); cuckoo: Err only when some insert fails after 500 kicks (no characterisation of fit)'],
    'not_decided': [],
}

PROPS['C09'] = {
    'level': 'proof',
    'verus_units': ['lossy'],
    'kani': {'quick': [('topk__lossycounter.rs', 'c09_lossy_with_epsilon_width_grid', 'bounded(the 1022 epsilons num/1024; HashMap::new stubbed with a fixed-key hasher state)')], 'thorough': []},
    'explanation': 'Verus proof on the real add(): the Lossy Counting invariant (f <= true <= f+delta, delta <= completed windows, untracked => true <= completed windows) is preserved for EVERY ghost true-count function; guarantee lemmas derive no-miss / no-intruder from it. Kani cannot execute std HashMap operations (HashMap::new is stubbed for the one constructor harness: with_epsilon => width == ceil(1/epsilon), bounded grid), so violations of the add/query clauses carry no-failing-input-found.',
    'trusted_base': COMMON_TRUST + ['vstd HashMap / entry-API specifications (obeys_key_model::<T>() assumed)',
                                    'R4: prune statement `drain().filter(P).collect()` replaced by a stub whose postcondition embeds the predicate text P captured from the source each run (std iterator semantics assumed)',
                                    'query(): the lazy iterator chain is not verified; its filter predicate text is captured and used in the guarantee lemmas'],
    'assumptions': ['f64: epsilon == 1/width resp. width == ceil(1/epsilon), and bound == max(0, ceil((s-epsilon)*n)) are taken in real arithmetic (not verified)',
                    'floor(n/width) <= epsilon*n'],
    'not_decided': ['the harmonic-number bound on the number of tracked elements (amortised over whole histories)', 'f64 computation of `bound` in query()'],
}

PROPS['C10'] = {
    'level': 'proof',
    'verus_units': ['cmsheap', 'cms', 'hashiter'],
    'kani': {'quick': [], 'thorough': []},
    'explanation': 'Verus proof on the real CMSHeap::add/new/clear/is_empty (unbounded in k, stream and sketch behaviour): add never panics (unwrap on the minimum, counter arithmetic, no assertion); the exact-count map and the ordered tree hold the same (count, element) pairs, at most k; exactly min(k, number of distinct elements seen) elements are held, all of which were added; and the ranking invariant (members carry a count in [true, true + E]; while there is room every seen element is a member; once full no outsider has a true count above any member\'s stored count) is preserved, from which lemma_ranking derives C10 as stated: a seen element x is missing only if all k members have true counts >= count(x) - E.',
    'trusted_base': COMMON_TRUST + ['vstd HashMap<Rc<T>, usize> / entry-API specifications (obeys_key_model::<Rc<T>>() assumed)',
                                    'BTreeSet<TreeEntry<T>> replaced by a contract-only stub EntrySet<T> (set of (n, obj) pairs ordered by TreeEntry\'s Ord; iter().next() is a minimum by n) -- TreeEntry\'s hand-written PartialEq (obj only) and Ord ((n, obj)) are inconsistent, which vstd\'s BTreeSet model cannot express',
                                    'CountMinSketch<T> replaced by a stub with ghost true counts tc and a stream constant E = max_err(): add(x) returns an estimate in [tc(x), tc(x)+E] -- the lower bound is C02, the upper bound is the DEFINITION of E in C10; that the real CountMinSketch::add returns exactly the row minimum of the updated counters (== query_point afterwards) is proved in unit cms, which this check runs too (seed C10-7)'],
    'assumptions': ['stored exact counters stay below usize::MAX', 'Kani cannot execute std HashMap/BTreeSet: violations carry no-failing-input-found', 'the heap is created with a fresh (all-zero) sketch'],
    'not_decided': ['iter() (impl Iterator over the tree, cloning the elements) is not under contract'],
}

PROPS['C11'] = {
    'level': 'other',
    'verus_units': ['helpers', 'bloom', 'cuckoo', 'quotient', 'hll', 'reservoir', 'lossy', 'cmsheap', 'cms', 'tdigest'],
    'kani': {
        'quick': [
            ('helpers.rs', 'c11_all_zero_intvector_u64', 'complete in element_bits (1..=64); bounded(len<=4)'),
            ('helpers.rs', 'c11_all_zero_intvector_usize', 'complete in element_bits (1..=64); bounded(len<=4)'),
            ('filters__quotientfilter.rs', 'c11_qf_table_sizes', 'bounded((bq,br)=(3,5))'),
            ('countminsketch.rs', 'c02_cms_add_u8_2x3', 'bounded((w,d)=(2,3)): table.len()==w*d before and after add'),
            ('tdigest.rs', 'c16_td_merge_1_1', 'bounded(1 centroid + 1 backlog; adversarial scale function): merge empties the backlog, never creates centroids, and hands the scale function ranks in [0,1] (weights normalised by the total weight)'),
            ('tdigest.rs', 'c11_td_backlog_bounded', 'bounded(max_backlog_size 1, <= 1 pending entry)'),
            ('tdigest.rs', 'c11_td_backlog_bounded_mb0', 'bounded(max_backlog_size 0, two inserts): every insert merges at once'),
            ('reservoirsampling.rs', 'c18_reservoir_extend_after_fillup', 'bounded(k=1, one concrete history): extend past fill-up keeps the allocation'),
        ],
        'thorough': [
            ('helpers.rs', 'intvector_stub_set_get', 'bounded(2 blocks): cross-check of the Verus IntVector stub against succinct'),
        ],
    },
    'explanation': 'allocation-size contracts proved by Verus for all sizes (all_zero_intvector block count = ceil(bits*len/W); Bloom m bits; Cuckoo/HLL/Reservoir table sizes; Quotient: 2^bq slots in three bit arrays + slots x remainder bits rounded up to one block, and no operation ever changes a length (same_shape); CMS: exactly w*d counters, add_n/merge/clear keep the length; growth bounded by representation invariants preserved by every verified operation; clear() keeps sizes). TDigest: Verus proves on the real insert_weighted, for EVERY max_backlog_size, that the backlog never exceeds max_backlog_size and that one insert adds at most one entry (against an assumed merge contract which the bounded Kani merge harnesses cross-check). Bounded Kani harnesses cross-check the IntVector/table sizes on the real dependency and the TDigest backlog bound for max_backlog_size 0 and 1.',
    'trusted_base': COMMON_TRUST + [INTVEC_TRUST, FBS_TRUST, 'Vec capacity slack and allocator behaviour (std)', 'unit tdigest: TDigestInner::merge() is an ASSUMED contract (backlog drained; n_samples, max_backlog_size, scale_function untouched; never more centroids than entries; non-empty input => non-empty output; empty backlog => no-op) -- iterator chains, sort_by and f64 are outside Verus; every clause is cross-checked on the real merge by the bounded Kani harnesses c16_td_merge_1_1 / c15_td_merge_empty_backlog_noop', 'unit tdigest R12: the float expressions `x * w`, `self.min.min(x)`, `self.max.max(x)` become contract-free stubs (arbitrary results), f64::INFINITY / NEG_INFINITY become opaque constants (only "clear() stores the same two values as new()" is used)'],
    'assumptions': [],
    'not_decided': ['TDigest centroid count O(delta) (same obstacle as C04)', 'LossyCounter: the closed-form O((1/eps) log(eps n)) bound (the pruning invariant that implies it -- every tracked entry has f + delta > completed windows -- IS proved)'],
}

PROPS['C12'] = {
    'level': 'proof',
    'verus_units': ['cuckoo', 'quotient', 'quotient_exact'],
    'kani': {'quick': CUCKOO_K[1:] + QF_QUICK[:4] + QF_UNION_QUICK, 'thorough': QF_THOROUGH + QF_UNION_THOROUGH},
    'explanation': 'Verus proofs, unbounded in table size and for every eviction outcome: Cuckoo insert Err => every slot and the counter are as before (undo log replayed backwards), union Err => table and counter restored; Quotient insert Err / Ok(false) => all four arrays and the counter unchanged (the capacity test precedes every write), union Err => all four arrays and the counter restored from the backup, whatever the partial transfer did. The other operand is a shared borrow. Kani harnesses (bounded) serve as counterexample engine and check the iterator-order rewrite.',
    'trusted_base': COMMON_TRUST + [HASH_TRUST, INTVEC_TRUST, PANIC_ASSERTS,
                                    'R2: `for (pos, data) in log.iter().rev().cloned()` rewritten to an index loop in the Verus unit; the real loop is checked against the reverse-order oracle by kani harness c12_cuckoo_restore_state_reverse_order (log <= 3)'],
    'assumptions': ['unit quotient (no layout invariant): the two panic sites whose reachability depends on the canonical layout are modelled as diverging (R9); unit quotient_exact proves both unreachable from every state satisfying inv() and re-proves the Err => unchanged clauses under inv()'],
    'not_decided': [],
}

PROPS['C13'] = {
    'level': 'proof',
    'verus_units': ['quotient', 'quotient_exact'],
    'kani': {'quick': QF_QUICK + QF_QR + QF_UNION_QUICK[-1:], 'thorough': QF_THOROUGH + QF_UNION_THOROUGH[:1]},
    'explanation': 'Verus proof, unbounded in table size, remainder width and history (unit quotient_exact, 100+ obligations): the canonical layout is captured by a ghost per-slot displacement d (slot_ok: shifted <=> d > 0, continuation <=> same home as predecessor, remainders strictly increasing inside a run; occupied <=> some element has that home). Key lemma: along a cluster the number of run starts equals the number of occupied buckets up to the home (lemma_runs), which makes scan()\'s counting walk find exactly the run of the quotient; the layout d is unique (lemma_canon_unique), so the abstract set mem(v, q, r) is well defined. Proved on the real text: scan: present == mem, plus the local insertion-point facts; insert_internal: Ok(false) iff known (state unchanged), Err iff new and len == 2^bq (state unchanged), Ok(true) iff new below capacity: len + 1, the new state is canonical and mem\' == mem + {(q, r)} for EVERY class (nothing lost, nothing invented), "infinite loop detected" unreachable; query == mem of the element\'s class; len == number of used slots == cardinality of the finite set of stored classes aset() (lemma_class_inj, lemma_cset); clear / constructor => empty set with the full invariant; union Ok => exact set union, Err <=> the union has more classes than slots. calc_quotient_remainder returns exactly the low bq+br hash bits split at br (bit-vector proof). Client step functions (step_insert_query, step_fresh, step_clear_query, step_union_query) state the property over these contracts for one step of an arbitrary history. Kani one-step harnesses against an independent canonical-layout encoder stay as counterexample engine (bounded: 2 slots quick, 4 slots thorough).',
    'trusted_base': COMMON_TRUST + [HASH_TRUST, INTVEC_TRUST, FBS_TRUST, 'vstd VecDeque push_back/pop_front specs', 'the 40-line canonical-layout encoder in kani/harness/filters__quotientfilter.rs (independent oracle of the bounded cross-check only)'],
    'assumptions': ['histories: each client step proves aset(after) == replay(h + [op]) from aset(before) == replay(h) for the abstract history semantics replay(); lemma_replay_only_inserted / lemma_replay_keeps / lemma_replay_len prove the history statements on replay(); that a run of the real code is the iteration of such steps is the remaining (meta) step'],
    'not_decided': [],
}

PROPS['C14'] = {
    'level': 'proof',
    'verus_units': ['cuckoo'],
    'kani': {'quick': CUCKOO_K, 'thorough': []},
    'explanation': 'Verus proof, unbounded in bucketsize / n_buckets / l_fingerprint / number of kicks / RNG outcomes: fingerprint-class multiplicities cc(f, b) form the abstract multiset; insert adds exactly one copy of the class (eviction-chain invariant through all 500 kicks), reports Ok(true), len+1; delete true iff a copy is stored, removes exactly one; query iff >= 1; fewer than bucketsize elements => Ok (pigeonhole).',
    'trusted_base': COMMON_TRUST + [HASH_TRUST, INTVEC_TRUST, PANIC_ASSERTS, 'verus/prelude/rng.rs'],
    'assumptions': ['BuildHasher stable; 64-bit target'],
    'not_decided': [],
}

PROPS['C15'] = {
    'level': 'other',
    'verus_units': [],
    'kani': {'quick': TD15_QUICK, 'thorough': TD15_THOROUGH},
    'explanation': 'bit-precise (IEEE f64) Kani harnesses on the real TDigestInner::quantile/cdf/interpolate from ARBITRARY well-formed centroid vectors of a bounded domain (<=2..3 centroids, weights 1..4, dyadic grid), including outermost weights > 1: endpoints, range, monotonicity, cdf(quantile(q)) = q, empty digest, repeated reads. Verus cannot interpret f64.',
    'trusted_base': COMMON_TRUST,
    'assumptions': ['bounded value domain (grid) and centroid count', 'tolerance 1e-9 absolute on range/monotonicity (the property allows a few ulps of the data range)'],
    'not_decided': ['digests with more than 3 centroids / off-grid values'],
}

PROPS['C16'] = {
    'level': 'other',
    'verus_units': ['tdigest'],
    'kani': {'quick': TD16_QUICK + TD16_MERGE, 'thorough': TD16_THOROUGH},
    'explanation': 'insert_weighted: complete Kani harness over the full f64 domain (min/max exact, backlog entry exact, zero weight is a no-op); merge(): bounded harness with an ADVERSARIAL scale function (f/f_inv return arbitrary values on every call) showing count()/sum() conserved, means sorted, min/max untouched for every merge schedule. Verus (unit tdigest, unbounded): every insert_weighted counts exactly one sample (n_samples + 1, the value K2/K3 read), adds at most one entry, leaves the digest non-empty and the configuration untouched -- the structural half of the step; the float half stays with Kani.',
    'trusted_base': COMMON_TRUST + ['unit tdigest: TDigestInner::merge() is an ASSUMED contract (backlog drained; n_samples, max_backlog_size, scale_function untouched; never more centroids than entries; non-empty input => non-empty output; empty backlog => no-op) -- iterator chains, sort_by and f64 are outside Verus; every clause is cross-checked on the real merge by the bounded Kani harnesses c16_td_merge_1_1 / c15_td_merge_empty_backlog_noop', 'unit tdigest R12: the float expressions `x * w`, `self.min.min(x)`, `self.max.max(x)` become contract-free stubs (arbitrary results), f64::INFINITY / NEG_INFINITY become opaque constants (only "clear() stores the same two values as new()" is used)'],
    'assumptions': ['merge harnesses: small integer weights/sums so f64 addition is exact; 1 centroid + 1 backlog entry with an adversarial scale function (quick), 1 centroid + 2 backlog entries with every fuse schedule (thorough)', '"to floating-point accumulation accuracy" for non-integer weights is assumed'],
    'not_decided': ['merge of more than three entries'],
}

PROPS['C17'] = {
    'level': 'proof',
    'verus_units': ['hll'],
    'kani': {'quick': HLL_K[:2] + HLL_K[3:], 'thorough': HLL_K[2:3]},
    'explanation': 'Verus proof for all b in 4..=18 and all 64-bit hashes: add_hashed updates exactly the register addressed by the low b bits to max(old, rank) with rank defined verbatim from the property (first set bit among the upper 64-b bits, 64-b+1 if none; leading_zeros characterised from vstd\'s recursive definition), all other registers unchanged; add == add_hashed(hash_one); constructors store their arguments; lemmas: update commutes and is idempotent => registers depend only on the set of hashes.',
    'trusted_base': COMMON_TRUST + [HASH_TRUST, 'vstd specification of u64::leading_zeros (recursive definition) and Vec', 'assume_specification for core::cmp::max (prelude/std_extra.rs)', PANIC_ASSERTS],
    'assumptions': [],
    'not_decided': [],
}

PROPS['C18'] = {
    'level': 'proof',
    'verus_units': ['reservoir'],
    'kani': {'quick': [('reservoirsampling.rs', 'c18_reservoir_all_zero_rng_k1', 'bounded(k=1, 8 adds, all-zero RNG words; real rand + real f64 gap code)'),
                       ('reservoirsampling.rs', 'c18_reservoir_all_zero_rng_k2', 'bounded(k=2, 12 adds, all-zero RNG words; real rand + real f64 gap code)'),
                       ('reservoirsampling.rs', 'c18_reservoir_extend_short_iter', 'bounded(k=3, iterator of <= 2 items): Extend::extend'),
                       ('reservoirsampling.rs', 'c18_reservoir_extend_after_fillup', 'bounded(k=1, one concrete history): Extend::extend on a sampler past fill-up'),
                       ('reservoirsampling.rs', 'c19_reservoir_clone_mid_fillup', 'bounded(k=4, one concrete history): clone during fill-up')], 'thorough': []},
    'explanation': 'Verus proof for all k >= 1, all i, every RNG behaviour: add() pushes while i < k, afterwards leaves the reservoir or replaces exactly one slot j < k by the new item, len == min(i+1, k), i+1, no index out of range; history lemma: stored stream positions are pairwise distinct, all < n, prefix in order until the (k+1)-th add.',
    'trusted_base': COMMON_TRUST + ['verus/prelude/rng.rs: gen_range(a..b) in [a, b) (panics on empty range: precondition)',
                                    'R3: the three f64 statements computing the gap length g are replaced by an arbitrary value g'],
    'assumptions': ['i + g does not overflow usize (g comes from ln() arithmetic neither verifier interprets)', 'k*4 <= usize::MAX (k >= 2^62 is excluded)', 'i < usize::MAX'],
    'not_decided': ['overflow of self.i + g'],
}

PROPS['C19'] = {
    'level': 'other',
    'verus_units': ['bloom', 'cuckoo', 'quotient', 'quotient_exact', 'cms', 'hll', 'reservoir', 'lossy', 'cmsheap', 'tdigest'],
    'kani': {'quick': TD19 + CMS_EMPTY + CMS_MERGE[:1] + HLL_MERGE + BLOOM_K[1:] + [('reservoirsampling.rs', 'c19_reservoir_clone_mid_fillup', 'bounded(k=4, one concrete history): clone during fill-up')] + [('filters__quotientfilter.rs', 'c19_qf_clear_is_fresh', 'bounded(4 slots, 16-bit remainders; arbitrary array contents)'),
                                                                  ('filters__cuckoofilter.rs', 'c19_cuckoo_clear_is_fresh', 'bounded(2x2 table)'),
                                                                  ('filters__cuckoofilter.rs', 'c19_cuckoo_clone_independent', 'bounded(2x2 table, arbitrary contents): clone independence'),
                                                                  ('filters__bloomfilter.rs', 'c19_bloom_clone_independent', 'bounded(m=7, arbitrary bits): clone independence'),
                                                                  ('countminsketch.rs', 'c19_cms_clone_independent', 'bounded(2x2 u8 table, arbitrary contents): clone independence'),
                                                                  ('hyperloglog__mod.rs', 'c19_hll_clone_independent', 'bounded(b=4, arbitrary registers): clone independence'),
                                                                  ('tdigest.rs', 'c19_td_clone_independent', 'bounded(one concrete insert on either side): clone independence through the RefCell')],
             'thorough': [('filters__quotientfilter.rs', 'c19_qf_clone_independent', 'bounded(2 slots, every canonical state): clone independence')]},
    'explanation': 'clear() contracts: every field that later behaviour reads equals the fresh value (hidden counters included) -- Verus for Bloom, Cuckoo, Quotient, CMS, HLL, Reservoir, LossyCounter, CMSHeap and TDigestInner (unbounded: all nine structures; TDigest: centroids and backlog empty, n_samples == 0, min/max the same two constants new() stores, configuration kept; is_empty exact incl. pending inserts); Kani for TDigest additionally through the public RefCell wrapper (bounded, f64). is_empty exactness likewise. Equal states + deterministic code => equal continuations. clone(): bounded Kani harnesses (clone, mutate one side, the other keeps its state) for Bloom, Cuckoo, CMS, HLL, TDigest, Reservoir (quick) and QuotientFilter (thorough).',
    'trusted_base': COMMON_TRUST + [INTVEC_TRUST, FBS_TRUST, 'unit tdigest: TDigestInner::merge() is an ASSUMED contract (backlog drained; n_samples, max_backlog_size, scale_function untouched; never more centroids than entries; non-empty input => non-empty output; empty backlog => no-op) -- iterator chains, sort_by and f64 are outside Verus; every clause is cross-checked on the real merge by the bounded Kani harnesses c16_td_merge_1_1 / c15_td_merge_empty_backlog_noop', 'unit tdigest R12: the float expressions `x * w`, `self.min.min(x)`, `self.max.max(x)` become contract-free stubs (arbitrary results), f64::INFINITY / NEG_INFINITY become opaque constants (only "clear() stores the same two values as new()" is used)'],
    'assumptions': ['clone(): all nine types are derive(Clone) over owned data (Rc<T> in CMSHeap is shared but T is never mutated); std Clone contracts assumed, not verified'],
    'not_decided': ['clone() independence beyond the bounded harnesses (derive(Clone) has no source text to put under a Verus contract); not exercised for LossyCounter, CMSHeap (std HashMap is out of reach for Kani)'],
}

PROPS['C20'] = {
    'level': 'proof',
    'verus_units': ['hll_serde', 'hll'],
    'kani': {'quick': HLL_TABLES, 'thorough': []},
    'explanation': 'Verus proof on the real visit_map body with serde MapAccess/Error as stub traits returning ARBITRARY values (every document shape): Ok(h) => 4 <= b <= 18 and registers.len() == 2^b; serialize passes exactly (registers, b, buildhasher) under their names; add_hashed index in range on such a sketch (unit hll); the constant tables cover b-4 in 0..15 (complete Kani harness).',
    'trusted_base': COMMON_TRUST + ['serde traits replaced by contract-free stub traits (MapAccess::next_key/next_value return arbitrary values; de::Error constructors arbitrary); the nested visitor impl is lifted into a plain impl',
                                    'round trip additionally assumes the data format round-trips Vec<u8>, usize and B (serde_json is not verified)'],
    'assumptions': ['count() float path: panic-freedom beyond table indexing is not verified'],
    'not_decided': ['visit_map stores the values read under the matching keys (types make a mix-up a compile error; not under contract)', 'count()/merge() panic-freedom on a deserialised sketch beyond index bounds'],
}

NOT_APPLICABLE = {
    'C03': 'statistical statement (RMS/mean/tail of relative error over hash seeds) about f64 estimator constants: no pre/postcondition expresses a distribution; f64 is uninterpreted in Verus and the cardinalities are out of CBMC reach (DESIGN.md section 6)',
    'C04': 'rank accuracy vs empirical CDF and delta+3 centroid bound are real-analysis facts about asin/ln/exp scale functions under f64 rounding over whole streams; no per-call contract decides them with Verus (no f64) or CBMC (no usable asin/exp) (DESIGN.md section 6)',
    'C05': 'probability over the sampler RNG (inclusion probability k/n): not a relation between pre- and post-state; validity of the sample is decided under C18 (DESIGN.md section 6)',
    'C07': 'false-positive frequencies over seeds/probe sets are statistical and the sizing formulas are log2/ln on f64; not expressible as a contract the installed verifiers can discharge (DESIGN.md section 6)',
    'C08': 'fraction of (seed, element) pairs exceeding epsilon*N is a statistical statement relying on row independence; no contract over one call states it (DESIGN.md section 6)',
}

def _mt(text, note, technique):
    return {'text': text, 'note': note, 'technique': technique}

MANIFEST_TEXT = {
    'C01': _mt('Unbounded Verus proofs for all three filters: Bloom + Cuckoo whole-view insert/query/delete/union contracts plus history lemmas; Quotient: canonical-layout invariant inductive over the real scan/insert_internal/union/clear, query == abstract membership, insert/union add exactly and lose nothing. Kani harnesses as counterexample engine.',
               'Trusted: hashing model (stable BuildHasher), IntVector/FixedBitSet/VecDeque stubs, HashIter::setup_f rewrite; HashSet compat proved against the vstd HashSet specs (extend/cloned stubbed); induction over histories is by re-established invariants.',
               'Verus contracts on extracted real functions (unbounded) + Kani contract harnesses (counterexample engine)'),
    'C02': _mt('Unbounded Verus proofs of add_n/add/query_point/merge/clear/is_empty/constructor on the real text (all w, d, counter types, hashers) plus the history lemma; Kani harnesses as counterexample engine.',
               'Trusted: hashing model, the Counter contract trait standing for the num_traits bounds, iterator chains rewritten to the loops they denote (std iterator semantics), overflow panics excluded by precondition.',
               'Verus contracts on extracted real functions + history lemma; Kani contract harnesses as counterexample engine'),
    'C06': _mt('merge contracts over abstract views: unbounded Verus proofs for Bloom, Cuckoo, CMS, HLL and the quotient filter (Ok => exact union of the abstract sets, Err => restored). Kani harnesses as counterexample engine.',
               'Trusted: stubs, hashing model, iterator-chain rewrites.', 'Verus contracts on extracted real functions + Kani contract harnesses (counterexample engine)'),
    'C09': _mt('Verus proof that the real LossyCounter::add preserves the Lossy Counting invariant for every ghost true-count function; guarantee lemmas on top.',
               'Trusted: vstd HashMap/entry specs, std drain/filter/collect semantics (predicate text captured from source), the f64 threshold of query translated mechanically to real arithmetic (R13: no rounding error/NaN modelled; ceil/floor/round axiomatised), eps*width >= 1 assumed of the constructors (Kani grid cross-check). Harmonic table bound not decided.',
               'Verus contracts on the extracted real add() + guarantee lemmas'),
    'C10': _mt('Unbounded Verus proof on the real CMSHeap::add: never panics, map and tree agree, exactly min(k, distinct seen) elements, all added, and the ranking invariant from which C10\'s ranking clause follows (lemma_ranking).',
               'Trusted: vstd HashMap specs, contract-only stubs for BTreeSet<TreeEntry> (ordered by (n, obj)) and for the sketch (estimate in [true, true+E]). No counterexample engine (Kani cannot run HashMap/BTreeSet).',
               'Verus contracts on the extracted real add()'),
    'C11': _mt('Allocation-size contracts: Verus (unbounded) for all_zero_intvector, Bloom, Cuckoo, Quotient, CMS, HLL, Reservoir, CMSHeap (<= k) and the LossyCounter pruning clause; TDigest backlog <= max_backlog_size proved by Verus on the real insert_weighted for every configuration against an assumed merge contract (cross-checked by bounded Kani merge harnesses); bounded Kani as cross-check of the stubs.',
               'Trusted: IntVector/FixedBitSet/Vec allocation behaviour as stated in the stubs; TDigest merge contract assumed (bounded cross-check); TDigest centroid count O(delta) and the closed-form LossyCounter bound not decided.',
               'Verus contracts on extracted real functions + Kani contract harnesses'),
    'C12': _mt('Unbounded Verus proofs for both filters: every failing insert/union leaves (cuckoo: restores) every array and the counter; Kani harnesses as counterexample engine.',
               'Trusted: IntVector/FixedBitSet stubs, hashing/RNG models; two canonical-layout-dependent panic sites of the quotient filter modelled as diverging.', 'Verus contracts on extracted real functions + Kani contract harnesses'),
    'C13': _mt('Unbounded Verus proof: the canonical-layout invariant (ghost displacement per slot, run-counting lemma, layout uniqueness) is inductive over the real scan/insert_internal/insert/union/clear; query == abstract membership; Ok(true)/Ok(false)/Err exactly as stated; len == cardinality of the finite set of stored classes; union Ok => exact union, Err <=> it does not fit; client steps tie every operation to the abstract history semantics replay(). Kani one-step harnesses against an independent encoder as counterexample engine.',
               'Trusted: IntVector/FixedBitSet/VecDeque stubs, hashing model; each step proved against the abstract history semantics replay(); iterating the step over a run of the real code is the remaining meta step.', 'Verus contracts on extracted real functions + Kani contract harnesses (counterexample engine)'),
    'C14': _mt('Unbounded Verus proof that CuckooFilter is an exact multiset over fingerprint classes (eviction-chain invariant through all kicks).',
               'Trusted: IntVector stub, hashing/RNG models, 64-bit usize.', 'Verus contracts on extracted real functions'),
    'C15': _mt('Bounded: bit-precise Kani harnesses on the real quantile/cdf from arbitrary well-formed small digests.',
               'Bounded value grid and centroid count; tolerance 1e-9.', 'Kani contract harnesses (bounded, IEEE f64 bit-precise)'),
    'C16': _mt('insert_weighted complete over f64 (Kani, loop-free) plus its structural half under a Verus contract (one sample per insert, at most one new entry, unbounded); merge() mass conservation bounded (three entries, every fuse schedule; adversarial scale function for 1+1).',
               'merge bounded to three entries with exact small-integer arithmetic; Verus sees no float values (R12).', 'Kani contract harnesses (complete for insert, bounded for merge) + Verus contract on the extracted insert_weighted (structural clauses)'),
    'C17': _mt('Unbounded Verus proof of the register update rule for all b and all hashes, with rank defined verbatim from the property; commutation lemma.',
               'Trusted: vstd leading_zeros/Vec specs, cmp::max spec, hashing model.', 'Verus contracts on extracted real functions + Kani harnesses as counterexample engine'),
    'C18': _mt('Unbounded Verus proof of the add() step contract for all k, i and RNG outcomes + history lemma (distinct positions, prefix).',
               'Assumed: i+g no overflow (f64 gap length havoced), k*4 no overflow.', 'Verus contracts on extracted real functions'),
    'C19': _mt('clear() == fresh on every field and is_empty exact: Verus contracts on the real clear/is_empty/constructors of all nine structures (unbounded; TDigestInner without float values); Kani harnesses (bounded) for TDigest through the real f64 code and for clone independence.',
               'Trusted: stubs; derive(Clone) semantics assumed (clone independence is bounded Kani only, hence level other).', 'Verus contracts + Kani contract harnesses'),
    'C20': _mt('Verus proof that deserialisation yields Err or a sketch satisfying the constructor invariant for every document shape; serialize passes the three fields.',
               'Trusted: serde traits as arbitrary-valued stubs; data format round trip assumed.', 'Verus contracts on the extracted real visit_map/serialize'),
}
