"""Per-property check configuration: which Verus units, lemma files and Kani harnesses decide it.

kani entries: (harness file, harness fn, bound label).  A label starting with 'complete' marks a
loop-free / full-domain harness counted as a discharged obligation; anything else is a bounded
stand-in and is reported under coverage.bounded_checks only.
"""

COMMON_TRUST = [
    'Verus 0.2026.09.13 + Z3 (SMT encoding, trigger-based quantifier instantiation)',
    'Kani 0.68 / CBMC 6.11 / CaDiCaL (bit-precise symbolic execution of the MIR of the real crate)',
    'vlib/extract.py: functions are cut verbatim from /repo on every run; rewrites are logged under coverage.rewrites_applied',
    'rustc semantics of the extracted text inside verus! equal its semantics in the crate (same text, stub dependency types)',
]

PROPS = {}

PROPS['C11'] = {
    'level': 'proof',
    'verus_units': ['helpers'],
    'lemmas': [],
    'kani': {
        'quick': [
            ('helpers.rs', 'c11_all_zero_intvector_u64', 'complete in element_bits (1..=64); bounded(len<=4)'),
            ('helpers.rs', 'c11_all_zero_intvector_usize', 'complete in element_bits (1..=64); bounded(len<=4)'),
        ],
        'thorough': [
            ('helpers.rs', 'intvector_stub_set_get', 'bounded(2 blocks): cross-check of the Verus IntVector stub against succinct'),
        ],
    },
    'explanation': 'allocation-size contracts: Verus (unbounded) on all_zero_intvector; Kani harnesses as counterexample engine',
    'trusted_base': COMMON_TRUST,
    'assumptions': [],
    'not_decided': [],
}

NOT_APPLICABLE = {
    'C03': 'statistical statement (RMS/mean/tail of relative error over hash seeds) about f64 estimator constants: no pre/postcondition expresses a distribution; f64 is uninterpreted in Verus and the cardinalities are out of CBMC reach (DESIGN.md section 6)',
    'C04': 'rank accuracy vs empirical CDF and delta+3 centroid bound are real-analysis facts about asin/ln/exp scale functions under f64 rounding over whole streams; no per-call contract decides them with Verus (no f64) or CBMC (no usable asin/exp) (DESIGN.md section 6)',
    'C05': 'probability over the sampler RNG (inclusion probability k/n): not a relation between pre- and post-state; validity of the sample is decided under C18 (DESIGN.md section 6)',
    'C07': 'false-positive frequencies over seeds/probe sets are statistical and the sizing formulas are log2/ln on f64; not expressible as a contract the installed verifiers can discharge (DESIGN.md section 6)',
    'C08': 'fraction of (seed, element) pairs exceeding epsilon*N is a statistical statement relying on row independence; no contract over one call states it (DESIGN.md section 6)',
}

MANIFEST_TEXT = {
    'C11': {
        'text': 'Allocation-size contracts: every table constructor and all_zero_intvector proved (Verus, unbounded in sizes) to allocate the documented number of blocks/cells; growth bounded by representation invariants preserved by every operation. Kani harnesses give replayable counterexamples.',
        'note': 'Trusted: IntVector/FixedBitSet/Vec allocation behaviour as stated in the stub contracts (cross-checked by bounded Kani harnesses), Vec capacity slack, allocator. Not decided: TDigest centroid count O(delta), LossyCounter log bound.',
        'technique': 'Verus contracts on extracted real functions + Kani contract harnesses',
    },
}
