"""Kani front-end: inject harness modules into a scratch copy of /repo, run, parse, replay."""
import json
import os
import re
import shutil
import subprocess
import tempfile
import threading
import time

VERIF = os.path.dirname(os.path.dirname(os.path.abspath(__file__)))
HARNESS_DIR = os.path.join(VERIF, 'kani', 'harness')
RSS_LIMIT_MB = int(os.environ.get('VERIF_CBMC_RSS_MB', '20000'))

# harness file -> source file it is appended to
def _target_of(hfile):
    stem = hfile[:-3]
    return os.path.join('src', *stem.split('__')) + '.rs'


def full_name(hfile, name):
    """kani/harness/filters__cuckoofilter.rs + foo -> filters::cuckoofilter::verif::foo"""
    parts = hfile[:-3].split('__')
    if parts[-1] == 'mod':
        parts = parts[:-1]
    return '::'.join(parts + ['verif', name])


# harness files that use items of another harness file (the symbolic BuildHasher lives in countminsketch.rs)
HARNESS_DEPS = {'filters__bloomfilter.rs': ['countminsketch.rs'], 'hash_utils.rs': ['countminsketch.rs']}


def prepare_scratch(repo, files=None):
    if files is not None:
        files = list(files)
        for f in list(files):
            for dep in HARNESS_DEPS.get(f, []):
                if dep not in files:
                    files.append(dep)
    """Copy repo (without target/.git) and append harness modules. Returns scratch path."""
    scratch = tempfile.mkdtemp(prefix='verif-kani-')
    subprocess.run(['rsync', '-a', '--exclude', 'target', '--exclude', '.git', repo.rstrip('/') + '/', scratch + '/'], check=True)
    shutil.copy(os.path.join(VERIF, 'kani', 'verif_sym.rs'), os.path.join(scratch, 'src', 'verif_sym.rs'))
    with open(os.path.join(scratch, 'src', 'lib.rs'), 'a') as fh:
        fh.write('\n#[cfg(any(kani, verif_replay))]\nmod verif_sym;\n')
    injected = {}
    for hf in sorted(os.listdir(HARNESS_DIR)):
        if not hf.endswith('.rs'):
            continue
        if files is not None and hf not in files:
            continue
        tgt = os.path.join(scratch, _target_of(hf))
        if not os.path.exists(tgt):
            injected[hf] = None
            continue
        base_lines = open(tgt).read().count('\n')
        with open(tgt, 'a') as fh:
            fh.write('\n#[cfg(any(kani, verif_replay))]\n#[allow(dead_code, unused_imports, unused_variables, unused_mut, clippy::all)]\npub(crate) mod verif {\n    use super::*;\n')
            fh.write(open(os.path.join(HARNESS_DIR, hf)).read())
            fh.write('\n}\n')
        injected[hf] = {'target': _target_of(hf), 'line_offset': base_lines + 5}
    # offline config
    os.makedirs(os.path.join(scratch, '.cargo'), exist_ok=True)
    with open(os.path.join(scratch, '.cargo', 'config.toml'), 'w') as fh:
        fh.write('[net]\noffline = true\n')
    return scratch, injected


def cleanup(scratch):
    shutil.rmtree(scratch, ignore_errors=True)


MIN_AVAILABLE_MB = 5000


class _Watchdog(threading.Thread):
    """Kill cbmc descendants of `root_pid` whose RSS exceeds the limit."""
    def __init__(self, root_pid):
        super().__init__(daemon=True)
        self.root = root_pid
        self.stop = False
        self.killed = []

    def run(self):
        while not self.stop:
            try:
                out = subprocess.run(['ps', '-eo', 'pid,ppid,rss,comm'], capture_output=True, text=True).stdout
                procs = {}
                for l in out.split('\n')[1:]:
                    p = l.split()
                    if len(p) >= 4:
                        procs[int(p[0])] = (int(p[1]), int(p[2]), p[3])
                def is_desc(pid):
                    seen = 0
                    while pid in procs and seen < 50:
                        if pid == self.root:
                            return True
                        pid = procs[pid][0]
                        seen += 1
                    return False
                for pid, (pp, rss, comm) in procs.items():
                    if comm.startswith('cbmc') and rss / 1024 > RSS_LIMIT_MB and is_desc(pid):
                        try:
                            os.kill(pid, 9)
                            self.killed.append(pid)
                        except OSError:
                            pass
                # system-wide pressure (no swap on this image: the kernel OOM killer would take kani-driver and with it
                # every pending harness): give up the LARGEST cbmc of this run instead; it is reported as budget exhausted
                avail = None
                for l in open('/proc/meminfo'):
                    if l.startswith('MemAvailable:'):
                        avail = int(l.split()[1]) / 1024
                if avail is not None and avail < MIN_AVAILABLE_MB:
                    mine = [(rss, pid) for pid, (pp, rss, comm) in procs.items() if comm.startswith('cbmc') and is_desc(pid)]
                    if mine:
                        rss, pid = max(mine)
                        try:
                            os.kill(pid, 9)
                            self.killed.append(pid)
                        except OSError:
                            pass
                        time.sleep(3)
            except Exception:
                pass
            time.sleep(2)


def _env():
    env = dict(os.environ)
    env['CARGO_NET_OFFLINE'] = 'true'
    env.pop('RUSTFLAGS', None)
    return env


def run_harnesses(scratch, harnesses, jobs=12, harness_timeout=900, extra=None, wall_timeout=None):
    cmd = ['cargo', 'kani', '-Z', 'unstable-options', '-Z', 'stubbing', '--harness-timeout', '%ds' % harness_timeout,
           '--output-format', 'terse', '-j', str(max(1, min(jobs, len(harnesses)))), '--exact']
    for h in harnesses:
        cmd += ['--harness', h]
    if extra:
        cmd += extra
    t0 = time.time()
    p = subprocess.Popen(cmd, cwd=scratch, env=_env(), stdout=subprocess.PIPE, stderr=subprocess.STDOUT, text=True)
    wd = _Watchdog(p.pid)
    wd.start()
    try:
        out, _ = p.communicate(timeout=wall_timeout)
    except subprocess.TimeoutExpired:
        subprocess.run(['pkill', '-9', '-P', str(p.pid)])
        p.kill()
        out, _ = p.communicate()
        out += '\nVERIF: wall timeout\n'
    wd.stop = True
    return {'cmd': ' '.join(cmd), 'out': out, 'rc': p.returncode, 'wall_s': time.time() - t0, 'rss_killed': len(wd.killed)}


def parse_results(out, harnesses):
    """Per harness: status in {success, failed, undecided, missing}; failed_checks; covers."""
    res = {h: {'status': 'missing', 'failed_checks': [], 'covers': None, 'time_s': None, 'raw': ''} for h in harnesses}
    short = {}
    cur_by_thread = {}
    cur = None
    lines = out.split('\n')
    # map full harness path -> requested name
    def lookup(full):
        for h in harnesses:
            if full == h or full.endswith('::' + h):
                return h
        return None
    for line in lines:
        m = re.match(r'^(?:Thread (\d+): )?Checking harness (\S+?)\.\.\.', line)
        if m:
            h = lookup(m.group(2))
            cur_by_thread[m.group(1) or '0'] = h
            cur = h
            continue
        m = re.match(r'^Thread (\d+):\s*$', line)
        if m:
            cur = cur_by_thread.get(m.group(1))
            continue
        if cur is None or cur not in res:
            continue
        r = res[cur]
        r['raw'] += line + '\n'
    for h, r in res.items():
        raw = r['raw']
        if 'VERIFICATION:- SUCCESSFUL' in raw:
            r['status'] = 'success'
        elif 'VERIFICATION:- FAILED' in raw:
            r['status'] = 'failed'
        m = re.search(r'Verification Time: ([0-9.]+)s', raw)
        if m:
            r['time_s'] = float(m.group(1))
        m = re.search(r'\*\* (\d+) of (\d+) cover properties satisfied', raw)
        if m:
            r['covers'] = (int(m.group(1)), int(m.group(2)))
        m = re.search(r'\*\* (\d+) of (\d+) failed', raw)
        if m:
            r['checks_total'] = int(m.group(2))
            r['checks_failed'] = int(m.group(1))
        for fm in re.finditer(r'Failed Checks: (.*)\n\s*File: "([^"]*)", line (\d+), in (\S+)', raw):
            r['failed_checks'].append({'description': fm.group(1).strip().strip('"'), 'file': fm.group(2), 'line': int(fm.group(3)), 'function': fm.group(4)})
        for fm in re.finditer(r'Failed Checks: (.*)\n(?!\s*File:)', raw):
            r['failed_checks'].append({'description': fm.group(1).strip().strip('"'), 'file': None, 'line': None, 'function': None})
        if r['status'] == 'failed':
            descs = [c['description'] for c in r['failed_checks']]
            tool = ('CBMC failed' in raw or 'out of memory' in raw or 'timed out' in raw.lower() or 'timeout' in raw.lower()
                    or any('unwinding assertion' in d for d in descs)
                    or any('is not currently supported by Kani' in d or 'unsupported' in d.lower() for d in descs))
            if tool or not descs:
                r['status'] = 'undecided'
                resource = ('CBMC failed' in raw or 'out of memory' in raw or 'timed out' in raw.lower() or 'timeout' in raw.lower() or not descs) \
                    and not any('unwinding assertion' in d or 'unsupported' in d.lower() or 'not currently supported' in d for d in descs)
                r['resource_limit'] = resource
                r['undecided_reason'] = ('cbmc time/memory budget exhausted' if resource else 'cbmc unwinding/unsupported: ' + '; '.join(descs)[:300])
        if r['status'] == 'missing' and ('Checking harness' in raw or raw.strip()):
            r['status'] = 'undecided'
            r['resource_limit'] = True
            r['undecided_reason'] = 'cbmc time/memory budget exhausted (no verdict printed)'
        if r['status'] == 'success' and r['covers'] and r['covers'][0] != r['covers'][1]:
            r['status'] = 'undecided'
            r['undecided_reason'] = 'vacuity guard: %d of %d cover points satisfied' % r['covers']
    return res


def concrete_values(scratch, harness, harness_timeout=900):
    """Re-run one failed harness with concrete playback; return [{kind, description, values}] for the failed checks (covers dropped)."""
    cmd = ['cargo', 'kani', '-Z', 'unstable-options', '-Z', 'stubbing', '--harness-timeout', '%ds' % harness_timeout, '--exact', '--harness', harness,
           '-Z', 'concrete-playback', '--concrete-playback=print', '--output-format', 'terse']
    p = subprocess.Popen(cmd, cwd=scratch, env=_env(), stdout=subprocess.PIPE, stderr=subprocess.STDOUT, text=True)
    wd = _Watchdog(p.pid)
    wd.start()
    out, _ = p.communicate()
    wd.stop = True
    # one generated test per failed check AND per satisfied cover: keep only the failed checks
    cands = []
    for bm in re.finditer(r"/// Check for `(\w+)`: \"(.*?)\"\s*\n(.*?)kani::concrete_playback_run", out, re.S):
        kind, desc, body = bm.group(1), bm.group(2).strip('"'), bm.group(3)
        m = re.search(r'let concrete_vals: Vec<Vec<u8>> = vec!\[(.*?)\n\s*\];', body, re.S)
        if not m:
            continue
        vals = []
        for vm in re.finditer(r'vec!\[([0-9,\s]*)\]', m.group(1)):
            vals.append([int(x) for x in vm.group(1).replace(' ', '').split(',') if x != ''])
        cands.append({'kind': kind, 'description': desc, 'values': vals})
    failing = [c for c in cands if c['kind'] != 'cover']
    if not failing:
        # a harness without symbolic inputs (fully concrete) has no values to print: replay it as is
        if 'VERIFICATION:- FAILED' in out and all(not c['values'] for c in cands):
            return [{'kind': 'assertion', 'description': '(harness has no symbolic input)', 'values': []}], out
        return None, out
    return failing, out


def native_replay(scratch, harness, vals, timeout=600):
    """Run the same harness body natively (cfg verif_replay) on concrete values.
    -> (reproduced: bool|None, output). None = assume failed / build problem."""
    env = _env()
    env['RUSTFLAGS'] = '--cfg verif_replay'
    env['VERIF_VALUES'] = ';'.join(','.join(str(b) for b in v) for v in vals)
    env['CARGO_TARGET_DIR'] = os.path.join(scratch, 'target-replay')
    env['RUST_BACKTRACE'] = '0'
    cmd = ['cargo', 'test', '--offline', '--lib', '--', '--exact', '--test-threads', '1', '--nocapture']
    # find full test path: harness is `verif::name` inside some module; use substring filter instead of --exact
    cmd = ['cargo', 'test', '--offline', '--lib', '--', '--test-threads', '1', '--nocapture', 'verif::' + harness.split('::')[-1]]
    try:
        p = subprocess.run(cmd, cwd=scratch, env=env, capture_output=True, text=True, timeout=timeout)
    except subprocess.TimeoutExpired:
        return None, 'native replay timeout'
    out = p.stdout + p.stderr
    if 'could not compile' in out:
        return None, 'NATIVE REPLAY BUILD FAILED: ' + out[-1500:]
    if 'VERIF_ASSUME_FAILED' in out:
        return None, out
    m = re.search(r'test result: (\w+)\. (\d+) passed; (\d+) failed', out)
    if not m:
        return None, out
    if int(m.group(2)) + int(m.group(3)) == 0:
        return None, out
    return (int(m.group(3)) > 0), out
