"""check driver: decide one property from /repo's current working tree."""
import concurrent.futures as cf
import json
import os
import re
import shutil
import sys
import tempfile
import time

from . import kani_run, unit, verus_run
from .config import PROPS
from .extract import AnchorLost

VERIF = os.path.dirname(os.path.dirname(os.path.abspath(__file__)))
REPO = os.environ.get('VERIF_REPO', '/repo')
# checks of a seeded/mutated tree (bin/seedtest) write their evidence and replay files next to the seed,
# so the committed evidence always describes /repo itself
EVID = os.environ.get('VERIF_EVIDENCE_DIR') or os.path.join(VERIF, 'evidence')
REPLAY = os.environ.get('VERIF_REPLAY_DIR') or os.path.join(VERIF, 'replay')
KNOWN = os.path.join(VERIF, 'known_findings.json')
BASELINE = os.path.join(VERIF, 'verus', 'baseline_obligations.json')

TAG_RE = re.compile(r'//\s*\[((?:C\d+)(?:\s*,\s*C\d+)*)\]')


def _tags_for_failure(gen_lines, failure, fn_props):
    """Property tags of a failing clause: tag comment on the clause line the verifier points at;
    untagged failures (overflow, bounds, callee precondition, invariant) belong to every
    property the function serves."""
    text = failure.get('text', '')
    tags = set()
    # secondary-span line numbers in the snippet that carry a 'failed' label on the next line
    lines = text.split('\n')
    for idx, l in enumerate(lines):
        if 'failed this' in l or re.search(r'\^+ failed|-+ failed', l):
            for back in range(idx - 1, max(-1, idx - 4), -1):
                m = re.match(r'\s*(\d+)\s*\|', lines[back])
                if m:
                    ln = int(m.group(1))
                    if 1 <= ln <= len(gen_lines):
                        tm = TAG_RE.search(gen_lines[ln - 1])
                        if tm:
                            tags |= set(t.strip() for t in tm.group(1).split(','))
                    break
    if not tags:
        tags = set(fn_props)
    return tags


def run_verus_unit(uname, workdir, rlimit, vacuity):
    """Generate + verify one unit. Returns dict."""
    tpath = os.path.join(VERIF, 'verus', 'units', uname + '.vrs')
    out = {'unit': uname, 'status': 'ok', 'failures': [], 'functions': [], 'verified': 0, 'errors': 0}
    try:
        g = unit.generate(tpath, REPO)
    except AnchorLost as e:
        out.update(status='undecided', reason='anchor lost: %s' % e)
        return out
    gp = os.path.join(workdir, uname + '.rs')
    with open(gp, 'w') as fh:
        fh.write(g.text())
    r = verus_run.run(gp, rlimit=rlimit)
    c = verus_run.classify(r, g, gp)
    out.update(status=c['status'], failures=c['failures'], verified=c['verified'], errors=c['errors'],
               per_function=c['per_function'], smt_ms=c['smt_ms'], wall_s=r['wall_s'], cmd=r['cmd'],
               functions=g.functions, rewrites=g.rewrites, ghost=g.ghost, includes=g.includes,
               gen_lines=g.lines)
    if c['status'] == 'undecided':
        fe = [f for f in c['failures'] if f['kind'] != 'verification']
        out['reason'] = (fe[0]['message'] if fe else 'verus rc=%s' % r['rc']) + ' | ' + r['stderr'][-600:]
    # vacuity twins: each contracted function with an extra `ensures false` must FAIL
    out['vacuity'] = []
    if vacuity and c['status'] == 'ok':
        out['vacuity'] = vacuity_twins(tpath, g, workdir, uname, rlimit)
    return out


def _add_false(spec_lines):
    txt = '\n'.join(spec_lines)
    m = re.search(r'\bensures\b', txt)
    if m:
        return (txt[:m.end()] + ' false,' + txt[m.end():]).split('\n')
    m = re.search(r'\bdecreases\b', txt)
    if m:
        return (txt[:m.start()] + ' ensures false,\n' + txt[m.start():]).split('\n')
    return (txt + '\n ensures false,').split('\n')


def vacuity_twins(tpath, g, workdir, uname, rlimit):
    """For every //@fn block: regenerate the unit with `ensures false` added to that one
    function; Verus must report a verification error inside it."""
    tl = open(tpath).read().split('\n')
    blocks = []
    for i, l in enumerate(tl):
        if l.strip().startswith('//@fn'):
            blocks.append(i)
    jobs = []
    for bi, start in enumerate(blocks):
        # locate //@spec .. next directive
        j = start + 1
        spec_a = spec_b = None
        while tl[j].strip() != '//@end':
            t = tl[j].strip()
            if t.startswith('//@spec'):
                spec_a = j + 1
            elif t.startswith('//@') and spec_a is not None and spec_b is None:
                spec_b = j
            j += 1
        end = j
        name0 = unit._kv(tl[start])
        fname0 = name0.get('rename', name0['name'])
        marker = [k for k, l in enumerate(tl) if l.strip() == '//@vacuity ' + fname0]
        if marker:
            # trait-impl method whose contract lives on a (re-declared) trait: the marker line sits inside that
            # method's trait-level `ensures` list and becomes `false,` in the twin
            new = tl[:marker[0]] + ['            false,'] + tl[marker[0] + 1:]
        elif spec_a is None:
            new = tl[:end] + ['//@spec', ' ensures false,'] + tl[end:]
        else:
            if spec_b is None:
                spec_b = end
            new = tl[:spec_a] + _add_false(tl[spec_a:spec_b]) + tl[spec_b:]
        name = unit._kv(tl[start])
        jobs.append((bi, name.get('rename', name['name']), '\n'.join(new)))

    def one(job):
        bi, fname, text = job
        tp = os.path.join(workdir, '%s_vac%d.vrs' % (uname, bi))
        with open(tp, 'w') as fh:
            fh.write(text)
        try:
            gg = unit.generate(tp, REPO)
        except AnchorLost as e:
            return {'function': fname, 'ok': False, 'why': 'anchor lost %s' % e}
        gp = os.path.join(workdir, '%s_vac%d.rs' % (uname, bi))
        with open(gp, 'w') as fh:
            fh.write(gg.text())
        r = verus_run.run(gp, rlimit=rlimit, threads=1)
        c = verus_run.classify(r, gg, gp)
        hit = any(f['kind'] == 'verification' and f['function'] == fname for f in c['failures'])
        return {'function': fname, 'ok': hit, 'why': 'ensures false rejected' if hit else 'ENSURES FALSE ACCEPTED OR UNDECIDED: ' + c['status']}

    with cf.ThreadPoolExecutor(max_workers=12) as ex:
        return list(ex.map(one, jobs))


def load_known():
    if os.path.exists(KNOWN):
        return json.load(open(KNOWN))
    return {'findings': [], 'fixed': []}


def match_known(pid, key):
    for f in load_known().get('findings', []):
        if f['property'] == pid and f['key'] == key:
            return f
    return None


def check(pid, tier, replay_only=None):
    t0 = time.time()
    cfg = PROPS[pid]
    seed = int(os.environ.get('VERIF_SEED', '0'))
    workdir = tempfile.mkdtemp(prefix='verif-verus-')
    os.makedirs(EVID, exist_ok=True)
    os.makedirs(REPLAY, exist_ok=True)
    violations = []      # dicts: key, obligation, replay_path, has_input
    undecided = []
    notes = []
    verus_results = []
    kani_results = {}
    rlimit = cfg.get('rlimit', 100)
    try:
        # ---------------- Verus layer
        units = list(cfg.get('verus_units', []))
        lemma_units = list(cfg.get('lemmas', []))
        with cf.ThreadPoolExecutor(max_workers=4) as ex:
            futs = {u: ex.submit(run_verus_unit, u, workdir, rlimit, cfg.get('vacuity', tier == 'thorough' or True)) for u in units + lemma_units}
            for u in units + lemma_units:
                verus_results.append(futs[u].result())
        verus_viol = []
        for vr in verus_results:
            if vr['status'] == 'undecided':
                undecided.append('verus unit %s: %s' % (vr['unit'], vr.get('reason', '?')))
                continue
            for vt in vr.get('vacuity', []):
                if not vt['ok']:
                    undecided.append('vacuity guard failed in unit %s fn %s: %s' % (vr['unit'], vt['function'], vt['why']))
            fnprops = {}
            for f in vr['functions']:
                fnprops[f['name']] = cfg.get('fn_props', {}).get(f['name'], [pid])
            for f in vr['failures']:
                if f['kind'] != 'verification':
                    continue
                if f['function'] is None:
                    # lemma over captured source text: counts only through an explicit clause tag
                    tags = _tags_for_failure(vr['gen_lines'], f, [])
                    if not tags:
                        undecided.append('verus unit %s: proof obligation outside extracted code failed: %s' % (vr['unit'], f['message']))
                        continue
                    f['function'] = '(lemma over captured source text)'
                    f['props'] = sorted(tags)
                    if pid in tags:
                        verus_viol.append((vr['unit'], f))
                    continue
                tags = _tags_for_failure(vr['gen_lines'], f, unit_fn_props(vr['unit'], f['function']))
                f['props'] = sorted(tags)
                if pid in tags:
                    verus_viol.append((vr['unit'], f))
                else:
                    notes.append('unit %s: failing obligation in %s belongs to %s, not %s' % (vr['unit'], f['function'], sorted(tags), pid))
        # ---------------- Kani layer
        hs = list(cfg.get('kani', {}).get('quick', []))
        if tier == 'thorough':
            hs += list(cfg.get('kani', {}).get('thorough', []))
        kani_viol = []
        scratch = None
        if hs:
            files = sorted(set(h[0] for h in hs))
            scratch, injected = kani_run.prepare_scratch(REPO, files)
            try:
                missing = [f for f, v in injected.items() if v is None]
                if missing:
                    undecided.append('kani: source file for harness %s missing (anchor lost)' % missing)
                names = {kani_run.full_name(h[0], h[1]): h for h in hs if injected.get(h[0])}
                r = kani_run.run_harnesses(scratch, list(names), jobs=cfg.get('kani_jobs', 6 if tier == 'thorough' else 12),   # thorough harnesses reach 7-12 GB each; 62 GB, no swap
                                           harness_timeout=cfg.get('harness_timeout', 1800 if tier == 'thorough' else 1500))
                pr = kani_run.parse_results(r['out'], list(names))
                kani_cmd = r['cmd']
                build_failed = all(x['status'] == 'missing' for x in pr.values())
                if build_failed:
                    undecided.append('kani: build/harness resolution failed: ' + r['out'][-1500:])
                for full, x in pr.items():
                    h = names[full]
                    x['bound'] = h[2]
                    x['file'] = h[0]
                    kani_results[full] = x
                    if x['status'] == 'success':
                        continue
                    if x['status'] in ('undecided', 'missing'):
                        if build_failed:
                            continue
                        if x.get('resource_limit') and not (h[2] or '').startswith('complete'):
                            # a bounded stand-in that did not finish within its budget explored nothing and found nothing:
                            # recorded in the evidence, never an alarm and never counted
                            notes.append('kani %s (bounded stand-in) did not finish within its time/memory budget: not counted' % full)
                            x['status'] = 'budget_exhausted'
                        else:
                            undecided.append('kani %s: %s' % (full, x.get('undecided_reason', x['status'])))
                        continue
                    # failed: which property do the failed checks belong to?
                    mine = []
                    for fc in x['failed_checks']:
                        tm = re.findall(r'\bC\d+\b', fc['description'])
                        if not tm or pid in tm:
                            mine.append(fc)
                    if not mine:
                        notes.append('kani %s: failed checks belong to other properties: %s' % (full, [c['description'] for c in x['failed_checks']]))
                        continue
                    if kani_viol:
                        # one replayed failing input per property run is enough; further failing harnesses are listed only
                        notes.append('kani %s also failed (%s); not replayed, a failing input is already attached' % (full, mine[0]['description']))
                        kani_viol[0].setdefault('also_failed', []).append({'harness': full, 'checks': mine})
                        continue
                    cands, cout = kani_run.concrete_values(scratch, full)
                    if cands is None:
                        undecided.append('kani %s failed (%s) but no concrete values were produced' % (full, mine[0]['description']))
                        continue
                    # try the counterexamples of this property's failed checks first
                    mine_desc = set(c['description'] for c in mine)
                    cands.sort(key=lambda c: 0 if c['description'] in mine_desc else 1)
                    reproduced = None
                    for cand in cands[:4]:
                        rep, rout = kani_run.native_replay(scratch, full, cand['values'])
                        if rep:
                            reproduced = (cand, rout)
                            break
                    x['replay'] = {'candidates': len(cands), 'reproduced': bool(reproduced)}
                    if reproduced:
                        cand, rout = reproduced
                        pm = re.search(r"panicked at ([^\n]*)\n([^\n]*)", rout)
                        kani_viol.append({'harness': full, 'file': h[0], 'checks': mine, 'values': cand['values'],
                                          'native_panic': (pm.group(1) + ' ' + pm.group(2)) if pm else rout[-400:], 'bound': h[2]})
                    else:
                        undecided.append('kani %s: counterexample for %r did not reproduce natively (not reported as failing input)' % (full, mine[0]['description']))
            finally:
                kani_run.cleanup(scratch)
        # ---------------- verdicts
        n = 0
        for kv in kani_viol:
            key = 'kani:%s:%s' % (kv['harness'].split('::')[-1], kv['checks'][0]['description'])
            kf = match_known(pid, key)
            if kf:
                print('KNOWN-FINDING: property=%s %s' % (pid, kf['what']))
                continue
            n += 1
            rp = os.path.join(REPLAY, '%s-%d.json' % (pid, n))
            json.dump({'property': pid, 'kind': 'kani-counterexample-replayed-natively', 'key': key, 'harness': kv['harness'],
                       'harness_file': 'kani/harness/' + kv['file'], 'failed_checks': kv['checks'], 'values': kv['values'],
                       'native_panic': kv['native_panic'], 'bound': kv['bound'], 'also_failed_not_replayed': kv.get('also_failed', []),
                       'how_to_replay': 'bin/check %s --replay %s' % (pid, rp)}, open(rp, 'w'), indent=1)
            violations.append({'key': key, 'replay': rp, 'has_input': True})
        for uname, f in verus_viol:
            key = 'verus:%s:%s:%s' % (uname, f['function'], (f['clause'] or f['message'])[:120])
            kf = match_known(pid, key)
            if kf:
                print('KNOWN-FINDING: property=%s %s' % (pid, kf['what']))
                continue
            # if a replayed Kani counterexample exists for this property, the input is already attached
            n += 1
            rp = os.path.join(REPLAY, '%s-%d.json' % (pid, n))
            json.dump({'property': pid, 'kind': 'verus-obligation-failed', 'key': key, 'unit': uname, 'function': f['function'],
                       'source': f['source'], 'obligation': f['clause'] or f['message'], 'verifier_message': f['message'],
                       'verifier_output': f['text'], 'failing_input': None if not kani_viol else 'see ' + violations[0]['replay'] if violations else None},
                      open(rp, 'w'), indent=1)
            violations.append({'key': key, 'replay': rp, 'has_input': bool(kani_viol)})
    finally:
        shutil.rmtree(workdir, ignore_errors=True)

    wall = time.time() - t0
    ev = build_evidence(pid, tier, seed, cfg, verus_results, kani_results, violations, undecided, notes, wall)
    with open(os.path.join(EVID, pid + '.json'), 'w') as fh:
        json.dump(ev, fh, indent=1)
    for n_ in notes:
        print('NOTE: ' + n_)
    if violations:
        for v in violations:
            print('VIOLATION property=%s replay=%s%s' % (pid, v['replay'], '' if v['has_input'] else ' no-failing-input-found'))
        return 1
    if undecided:
        for u in undecided:
            print('UNDECIDED: ' + u[:2000])
        return 2
    print('OK property=%s tier=%s verus_units=%d kani_harnesses=%d wall=%.0fs' % (pid, tier, len(verus_results), len(kani_results), wall))
    return 0


_UNIT_FN_PROPS = {}


def unit_fn_props(uname, fname):
    """props=... attribute on the //@fn line of the unit template."""
    if uname not in _UNIT_FN_PROPS:
        d = {}
        tp = os.path.join(VERIF, 'verus', 'units', uname + '.vrs')
        for l in open(tp):
            if l.strip().startswith('//@fn'):
                kv = unit._kv(l)
                d[kv.get('rename', kv['name'])] = kv.get('props', '').split(',') if kv.get('props') else []
        _UNIT_FN_PROPS[uname] = d
    return _UNIT_FN_PROPS[uname].get(fname, [])


def scan_trusted(includes_and_units):
    """Mechanical scan for assumption keywords in prelude / unit templates."""
    found = []
    pat = re.compile(r'external_body|assume_specification|\bassume\s*\(|\badmit\s*\(|\baxiom|uninterp|external_fn_specification|external_type_specification|\bexternal\b')
    for p in includes_and_units:
        if not os.path.exists(p):
            continue
        lines = open(p).read().split('\n')
        for ln, l in enumerate(lines, 1):
            if l.strip().startswith('//'):
                continue
            m = pat.search(l)
            if m:
                ctx = l.strip()
                if ctx.startswith('#['):
                    # attach the item the attribute decorates
                    for nxt in lines[ln:ln + 4]:
                        if nxt.strip() and not nxt.strip().startswith('#[') and not nxt.strip().startswith('//'):
                            ctx += ' ' + nxt.strip()
                            break
                found.append('%s:%d: %s' % (os.path.relpath(p, VERIF), ln, ctx[:200]))
    return found


def build_evidence(pid, tier, seed, cfg, verus_results, kani_results, violations, undecided, notes, wall):
    fns = []
    obligations = 0
    discharged = 0
    smt_ms = 0
    rewrites = []
    ghost = []
    vac = []
    samples = []
    scan_paths = []
    verus_cmds = []
    for vr in verus_results:
        smt_ms += vr.get('smt_ms', 0)
        if vr.get('cmd'):
            verus_cmds.append(vr['cmd'])
        scan_paths.append(os.path.join(VERIF, 'verus', 'units', vr['unit'] + '.vrs'))
        for inc in vr.get('includes', []):
            scan_paths.append(os.path.join(VERIF, 'verus', inc))
        failed_fns = set(f['function'] for f in vr.get('failures', []) if f.get('function'))
        for f in vr.get('functions', []):
            ncl = sum(f['clauses'].values())
            pf = None
            for k, v in vr.get('per_function', {}).items():
                if k.endswith('::' + f['name']) or k == f['name']:
                    pf = v
            fns.append({'function': f['name'], 'source': '%s:%d-%d' % (f['file'], f['line_start'], f['line_end']),
                        'sha256_16': f['sha256_16'], 'unit': vr['unit'], 'contract_clauses': f['clauses'],
                        'verified': vr['status'] == 'ok' or (vr['status'] == 'violation' and f['name'] not in failed_fns),
                        'smt_ms': pf['ms'] if pf else None, 'rlimit_used': pf['rlimit'] if pf else None})
        # obligations as counted by the verifier: one per function/loop/lemma query it discharged or failed
        obligations += vr.get('verified', 0) + vr.get('errors', 0)
        discharged += vr.get('verified', 0)
        rewrites += vr.get('rewrites', [])
        ghost += vr.get('ghost', [])
        vac += [dict(v, unit=vr['unit']) for v in vr.get('vacuity', [])]
    for f in fns[:6]:
        samples.append({'verus_obligation_group': f['function'], 'source': f['source'], 'clauses': f['contract_clauses']})
    bounded = []
    k_complete = 0
    k_complete_ok = 0
    for full, x in kani_results.items():
        ent = {'harness': full, 'bound': x.get('bound'), 'result': x['status'], 'time_s': x.get('time_s'),
               'cbmc_checks': x.get('checks_total'), 'covers': x.get('covers')}
        if x.get('bound', '').startswith('complete'):
            k_complete += 1
            obligations += 1
            if x['status'] == 'success':
                discharged += 1
                k_complete_ok += 1
        bounded.append(ent)
    for b in bounded[:4]:
        samples.append({'kani_harness': b['harness'], 'bound': b['bound'], 'result': b['result'], 'cbmc_checks': b['cbmc_checks']})
    trusted = scan_trusted(sorted(set(scan_paths)))
    level = cfg['level']
    ev = {
        'property_id': pid, 'tier': tier, 'seed': seed, 'level': level,
        'coverage': {
            'obligations': obligations, 'discharged': discharged,
            'checker_cmd': '; '.join(verus_cmds[:3] + (['cargo kani -Z unstable-options --harness-timeout .. --output-format terse -j N --exact --harness <each listed harness> (scratch copy of /repo with kani/harness/*.rs appended)'] if kani_results else [])),
            'trusted_base': cfg.get('trusted_base', []) + trusted,
            'explanation': cfg.get('explanation', ''),
            'functions_under_contract': fns,
            'by_backend': {'verus-z3': {'queries': sum(v.get('verified', 0) + v.get('errors', 0) for v in verus_results), 'smt_ms': smt_ms, 'rlimit': cfg.get('rlimit', 100)},
                           'kani-cbmc-cadical': {'harnesses': len(kani_results), 'complete_harnesses': k_complete, 'complete_ok': k_complete_ok,
                                                 'solver_s': round(sum((x.get('time_s') or 0) for x in kani_results.values()), 1)}},
            'bounded_checks': [b for b in bounded if not (b['bound'] or '').startswith('complete')],
            'complete_kani_harnesses': [b for b in bounded if (b['bound'] or '').startswith('complete')],
            'rewrites_applied': rewrites, 'ghost_insertions': ghost, 'vacuity_checks': vac,
            'not_decided': cfg.get('not_decided', []),
            'undecided_this_run': undecided, 'notes': notes,
            'samples': samples,
        },
        'assumptions': cfg.get('assumptions', []),
        'wall_s': round(wall, 1),
        'violations': len(violations),
    }
    return ev


def replay(pid, path):
    d = json.load(open(path))
    if d.get('kind') != 'kani-counterexample-replayed-natively':
        print('replay file names a Verus obligation (no concrete input): %s / %s' % (d.get('function'), d.get('obligation')))
        print(d.get('verifier_output', ''))
        # re-run the property check: the obligation must fail again
        return check(pid, 'quick')
    hf = d['harness_file'].split('/')[-1]
    scratch, inj = kani_run.prepare_scratch(REPO, [hf])
    try:
        rep, out = kani_run.native_replay(scratch, d['harness'], d['values'])
        print(out[-3000:])
        if rep:
            print('VIOLATION property=%s replay=%s' % (pid, path))
            return 1
        print('not reproduced on the current tree (reproduced=%s)' % rep)
        return 0
    finally:
        kani_run.cleanup(scratch)


def main(argv):
    import argparse
    ap = argparse.ArgumentParser()
    ap.add_argument('pid')
    ap.add_argument('--tier', default=os.environ.get('VERIF_TIER', 'quick'))
    ap.add_argument('--replay')
    a = ap.parse_args(argv)
    if a.pid not in PROPS:
        print('unknown or unclaimed property %s' % a.pid)
        return 2
    if a.replay:
        return replay(a.pid, a.replay)
    return check(a.pid, a.tier if a.tier in ('quick', 'thorough') else 'quick')
