"""Run Verus on a generated unit and classify the outcome."""
import json
import os
import re
import subprocess
import time

VERIFICATION_MSGS = [
    'postcondition not satisfied',
    'precondition not satisfied',
    'invariant not satisfied at end of loop body',
    'invariant not satisfied before loop',
    'loop invariant not preserved',
    'loop invariant not satisfied',
    'assertion failed',
    'possible arithmetic underflow/overflow',
    'possible division by zero',
    'possible bit shift underflow/overflow',
    'decreases not satisfied',
    'could not prove termination',
    'index out of bounds',
    'unreachable',
    'failed precondition',
    'recommendation not met',
    'assert_bitvector_by',
    'bitvector',
    'nonlinear',
    'ensures not satisfied',
    'requires not satisfied',
]
RESOURCE_MSGS = ['rlimit', 'resource limit', 'timed out', 'timeout', 'out of memory']


def run(gen_path, rlimit=60, threads=4, extra=None, timeout=1800):
    cmd = ['verus', gen_path, '--output-json', '--time', '--rlimit', str(rlimit), '--num-threads', str(threads),
           '--multiple-errors', '8']
    if extra:
        cmd += extra
    t0 = time.time()
    env = dict(os.environ)
    env.pop('RUSTFLAGS', None)
    try:
        p = subprocess.run(cmd, capture_output=True, text=True, timeout=timeout, env=env)
        out, err, rc = p.stdout, p.stderr, p.returncode
    except subprocess.TimeoutExpired as e:
        out, err, rc = (e.stdout or b'').decode() if isinstance(e.stdout, bytes) else (e.stdout or ''), 'verus wall-clock timeout', 124
    wall = time.time() - t0
    js = None
    try:
        k = out.index('{')
        js = json.loads(out[k:])
    except Exception:
        js = None
    return {'cmd': ' '.join(cmd), 'stdout': out, 'stderr': err, 'rc': rc, 'wall_s': wall, 'json': js}


def _blocks(stderr):
    """Split rustc-style diagnostics into blocks starting at error/warning/note lines."""
    blocks = []
    cur = None
    for line in stderr.split('\n'):
        if re.match(r'^(error|warning|note)(\[[A-Z0-9]+\])?:', line):
            if cur:
                blocks.append(cur)
            cur = [line]
        elif cur is not None:
            cur.append(line)
    if cur:
        blocks.append(cur)
    return blocks


def classify(res, gen, gen_path):
    """-> dict(status=ok|violation|undecided, failures=[...], verified=N, errors=M, per_function={...})"""
    js = res['json']
    failures = []
    base = os.path.basename(gen_path)
    for b in _blocks(res['stderr']):
        head = b[0]
        if not head.startswith('error'):
            continue
        msg = head.split(':', 1)[1].strip()
        if msg.startswith('aborting due to') or msg.startswith('could not compile'):
            continue
        code = re.match(r'^error\[([A-Z0-9]+)\]', head)
        loc = None
        for l in b[1:]:
            m = re.match(r'\s*-->\s*(\S+?):(\d+):(\d+)', l)
            if m and os.path.basename(m.group(1)) == base:
                loc = int(m.group(2))
                break
        low = msg.lower()
        if code:
            kind = 'frontend'
        elif any(k in low for k in RESOURCE_MSGS):
            kind = 'resource'
        elif any(k in low for k in VERIFICATION_MSGS):
            kind = 'verification'
        else:
            kind = 'frontend'
        # the clause the verifier points at (secondary label lines)
        clause = None
        for idx, l in enumerate(b):
            if re.search(r'failed (this )?(postcondition|precondition|invariant)|failed this', l) or re.search(r'-{3,} failed', l):
                # the source text is on the previous line of the snippet
                if idx > 0:
                    prev = b[idx - 1]
                    mm = re.match(r'\s*\d*\s*\|\s?(.*)$', prev)
                    clause = (mm.group(1) if mm else prev).strip()
                break
        fn = gen.func_at(loc) if loc else None
        if fn is None:
            # contract stated on a (re-declared) trait: the primary span is the trait's clause, the secondary span
            # ("at the end of the function body" / "at this exit" / the call site) lies in the extracted impl method
            for l in b[1:]:
                mm = re.match(r'\s*(\d+)\s*\|', l)
                if mm and gen.func_at(int(mm.group(1))):
                    fn = gen.func_at(int(mm.group(1)))
                    break
        failures.append({
            'kind': kind, 'message': msg, 'gen_line': loc,
            'function': fn['name'] if fn else None,
            'source': ('%s:%d-%d' % (fn['file'], fn['line_start'], fn['line_end'])) if fn else None,
            'clause': clause,
            'text': '\n'.join(b)[:4000],
        })
    verified = errors = 0
    enc_err = False
    if js:
        vr = js.get('verification-results', {})
        verified = vr.get('verified', 0)
        errors = vr.get('errors', 0)
        enc_err = vr.get('encountered-error', False) or vr.get('encountered-vir-error', False)
    status = 'ok'
    if res['rc'] == 124 or js is None:
        status = 'undecided'
    if any(f['kind'] == 'frontend' for f in failures) or (enc_err and not failures):
        status = 'undecided'
    elif any(f['kind'] == 'resource' for f in failures):
        status = 'undecided'
    if status == 'ok' and any(f['kind'] == 'verification' for f in failures):
        status = 'violation'
    if status == 'ok' and (res['rc'] != 0 or errors > 0):
        status = 'undecided'
    # a verification failure outside any extracted function (prelude / lemma) is a machinery problem
    # UNLESS the failing clause carries a property tag (lemmas over text captured from the source)
    if status == 'violation':
        ver = [f for f in failures if f['kind'] == 'verification']
        if all(f['function'] is None and not re.search(r'//\s*\[C\d+', f.get('text', '')) for f in ver):
            status = 'undecided'
    per_fn = {}
    smt_ms = 0
    if js:
        try:
            for mod in js['times-ms']['smt']['smt-run-module-times']:
                for fb in mod.get('function-breakdown', []):
                    per_fn[fb.get('function', '?')] = {'ms': fb.get('time', 0), 'rlimit': fb.get('rlimit', 0), 'success': fb.get('success')}
            smt_ms = js['times-ms']['smt'].get('total', 0)
        except Exception:
            pass
    return {'status': status, 'failures': failures, 'verified': verified, 'errors': errors,
            'per_function': per_fn, 'smt_ms': smt_ms}
