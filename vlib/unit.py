"""Unit template (.vrs) -> generated single-file Verus crate.

Template = Verus text with directive blocks:

  //@fn file=<rel path> impl=<substring of impl header | -> name=<fn> [nth=N] [rename=X] [ret=r] [where=keep|drop]
  //@spec
  <requires / ensures / decreases clauses, verbatim Verus>
  //@loop <ordinal>
  <invariant / decreases clauses, verbatim Verus>
  //@replace <count> :: <old text> ==> <new text>       (whitespace-insensitive literal; logged)
  //@end

  //@struct file=<rel path> name=<Name> [kind=struct|enum]
  //@replace ...
  //@end

  //@include <path relative to /verif/verus>             (prelude files)

Everything else is copied through.  The generator returns the text plus a
line map: generated line -> (kind, unit object name, source file, source line).
"""
import os
import re

from . import extract
from .extract import AnchorLost

VERUS_DIR = os.path.join(os.path.dirname(os.path.dirname(os.path.abspath(__file__))), 'verus')


def _kv(s):
    d = {}
    for tok in re.findall(r'(\w+)=("[^"]*"|\S+)', s):
        d[tok[0]] = tok[1].strip('"')
    return d


def _ws_pattern(lit):
    parts = lit.split()
    return r'\s*'.join(re.escape(p) for p in parts) if False else r'\s+'.join(re.escape(p) for p in parts)


_ASSERT_RE = re.compile(r'assert!\(\s*((?:.|\n)*?),\s*"(?:[^"\\]|\\.)*"\s*(?:,(?:[^;"]|"(?:[^"\\]|\\.)*")*?)?\)\s*;')
_ASSERT_EQ_RE = re.compile(r'assert_eq!\(\s*([^,]*?),\s*([^,]*?),\s*"(?:[^"\\]|\\.)*"\s*(?:,(?:[^;"]|"(?:[^"\\]|\\.)*")*?)?\)\s*;')


def asserts_to_vassert(text, log, where):
    n = [0]

    def one(m):
        n[0] += 1
        cond = ' '.join(m.group(1).split())
        if 'buildhasher' in cond:
            return '/* buildhasher equality check: precondition */'
        cond = cond.replace(') & (', ') && (').replace('() & (', '() && (')
        return 'vassert(%s);' % cond

    def two(m):
        n[0] += 1
        a, b = ' '.join(m.group(1).split()), ' '.join(m.group(2).split())
        if 'buildhasher' in a:
            return '/* buildhasher equality check: precondition */'
        return 'vassert(%s == %s);' % (a, b)
    text = _ASSERT_EQ_RE.sub(two, text)
    text = _ASSERT_RE.sub(one, text)
    if n[0] == 0:
        raise AnchorLost('%s: asserts_to_vassert found no assert!/assert_eq! with a message' % where)
    log.append({'where': where, 'old': 'assert!/assert_eq!(.., "fmt", ..) x%d' % n[0], 'new': 'vassert(cond); (requires cond)', 'count': n[0]})
    return text


def apply_replace(text, count, old, new, log, where):
    if isinstance(old, tuple) and old[0] == 'asserts':
        return asserts_to_vassert(text, log, where)
    if isinstance(old, tuple):
        pat = re.compile(old[1])
        found = list(pat.finditer(text))
        if count == '?':
            # optional rule: rewrites every occurrence, none is fine (used to route calls that the pinned tree does not
            # contain, but a change may introduce, to a contract stub)
            if found:
                log.append({'where': where, 'old': 'regex ' + old[1], 'new': new, 'count': len(found)})
            return pat.sub(new, text)
        if (count == '*' and not found) or (count != '*' and len(found) != int(count)):
            raise AnchorLost('%s: regex rule expected %s match(es) of %r, found %d' % (where, count, old[1], len(found)))
        log.append({'where': where, 'old': 'regex ' + old[1], 'new': new, 'count': len(found)})
        return pat.sub(new, text)
    pat = re.compile(_ws_pattern(old))
    found = pat.findall(text)
    if len(found) != count:
        raise AnchorLost('%s: replace rule expected %d match(es) of %r, found %d' % (where, count, old, len(found)))
    log.append({'where': where, 'old': old, 'new': new, 'count': count})
    return pat.sub(lambda m: new, text)


class Generated:
    def __init__(self):
        self.lines = []
        self.functions = []   # dicts: name, file, line_start, line_end, sha, gen_start, gen_end, n_requires...
        self.rewrites = []
        self.ghost = []
        self.includes = []

    def text(self):
        return '\n'.join(self.lines) + '\n'

    def emit(self, s):
        for l in s.split('\n'):
            self.lines.append(l)

    def func_at(self, gen_line):
        for f in self.functions:
            if f['gen_start'] <= gen_line <= f['gen_end']:
                return f
        return None


def _count_clauses(spec_text):
    """Rough count of top-level comma separated clauses per keyword."""
    counts = {}
    cur = None
    depth = 0
    buf = ''
    toks = re.split(r'(\brequires\b|\bensures\b|\binvariant\b|\binvariant_except_break\b|\bdecreases\b|\brecommends\b)', extract._mask(spec_text))
    for t in toks:
        if t in ('requires', 'ensures', 'invariant', 'invariant_except_break', 'decreases', 'recommends'):
            cur = t
            counts.setdefault(cur, 0)
            continue
        if cur is None:
            continue
        depth = 0
        part = ''
        for ch in t:
            if ch in '([{':
                depth += 1
            elif ch in ')]}':
                depth -= 1
            if ch == ',' and depth == 0:
                if part.strip():
                    counts[cur] += 1
                part = ''
            else:
                part += ch
        if part.strip():
            counts[cur] += 1
    return counts


def generate(template_path, repo):
    g = Generated()
    src_cache = {}

    def source(rel):
        if rel not in src_cache:
            p = os.path.join(repo, rel)
            if not os.path.exists(p):
                raise AnchorLost('source file %s missing' % rel)
            src_cache[rel] = extract.Source(p)
        return src_cache[rel]

    def load(path, depth=0):
        out = []
        with open(path) as fh:
            for l in fh.read().split('\n'):
                if l.strip().startswith('//@include'):
                    rel = l.strip().split(None, 1)[1].strip()
                    g.includes.append(rel)
                    out.append('// ---- include %s ----' % rel)
                    if depth > 4:
                        raise AnchorLost('include depth')
                    out += load(os.path.join(VERUS_DIR, rel), depth + 1)
                else:
                    out.append(l)
        return out
    tl = load(template_path)
    i = 0
    captures = {}
    while i < len(tl):
        line = tl[i]
        for cn, cv in captures.items():
            if '{{' + cn + '}}' in line:
                line = line.replace('{{' + cn + '}}', cv)
                tl[i] = line
        s = line.strip()
        if s.startswith('//@capture'):
            # //@capture NAME file=<rel> :: <python regex with one group>  -> {{NAME}} = group(1) of the unique match
            # //@capture_f64 ...: the captured f64 expression is translated to a spec expression over `real` (rule R13)
            as_real = s.startswith('//@capture_f64')
            m = re.match(r'//@capture(?:_f64)?\s+(\w+)\s+file=(\S+)\s*::\s*(.*)$', s)
            if not m:
                raise AnchorLost('bad capture directive: ' + s)
            src = source(m.group(2))
            found = list(re.finditer(m.group(3), src.text, re.S))
            if len(found) != 1:
                raise AnchorLost('capture %s: regex matched %d times in %s (need exactly 1)' % (m.group(1), len(found), m.group(2)))
            captures[m.group(1)] = ' '.join(found[0].group(1).split())
            if as_real:
                captures[m.group(1)] = f64_to_real(captures[m.group(1)])
            g.rewrites.append({'where': 'capture ' + m.group(1) + ' (' + m.group(2) + ')', 'old': found[0].group(0)[:200], 'new': '{{%s}} = %s' % (m.group(1), captures[m.group(1)]), 'count': 1})
            g.emit('// ---- captured from %s: %s = %s ----' % (m.group(2), m.group(1), captures[m.group(1)]))
            i += 1
            continue
        if s.startswith('//@include'):
            rel = s.split(None, 1)[1].strip()
            p = os.path.join(VERUS_DIR, rel)
            g.includes.append(rel)
            g.emit('// ---- include %s ----' % rel)
            g.emit(open(p).read().rstrip('\n'))
            i += 1
            continue
        if s.startswith('//@fn') or s.startswith('//@struct'):
            is_fn = s.startswith('//@fn')
            args = _kv(s)
            spec = []
            loops = {}
            replaces = []
            proofs = []
            attrs = []
            mode = None
            i += 1
            while i < len(tl) and tl[i].strip() != '//@end':
                for cn, cv in captures.items():
                    if '{{' + cn + '}}' in tl[i]:
                        tl[i] = tl[i].replace('{{' + cn + '}}', cv)
                t = tl[i].strip()
                if t.startswith('//@spec'):
                    mode = 'spec'
                elif t.startswith('//@loop'):
                    mode = ('loop', int(t.split()[1]))
                    loops[mode[1]] = []
                elif t.startswith('//@asserts_to_vassert'):
                    # R8: every panicking `assert!(c, "fmt", ..)` / `assert_eq!(a, b, "fmt", ..)` of the function becomes
                    # `vassert(c);` / `vassert(a == b);` (a call with `requires c`): the documented parameter ranges must
                    # imply each check.  Checks comparing BuildHashers (`==` on a generic type) are dropped.
                    replaces.append(('*', ('asserts',), '', []))
                elif t.startswith('//@replace_re'):
                    # regex rewrite (python syntax, \\1 back-references); count may be `*` (one or more)
                    m = re.match(r'//@replace_re\s+(\d+|\*|\?)\s*::\s*(.*?)\s*==>\s*(.*)$', t)
                    if not m:
                        raise AnchorLost('bad replace_re directive: ' + t)
                    replaces.append((m.group(1), ('re', m.group(2)), m.group(3), []))
                elif t.startswith('//@replace_alt'):
                    # alternative source form for the PREVIOUS replace rule (tried when that one does not match)
                    m = re.match(r'//@replace_alt\s+(\d+)\s*::\s*(.*?)\s*==>\s*(.*)$', t)
                    if not m or not replaces:
                        raise AnchorLost('bad replace_alt directive: ' + t)
                    replaces[-1][3].append((int(m.group(1)), m.group(2), m.group(3)))
                elif t.startswith('//@replace'):
                    m = re.match(r'//@replace\s+(\d+)\s*::\s*(.*?)\s*==>\s*(.*)$', t)
                    if not m:
                        raise AnchorLost('bad replace directive: ' + t)
                    replaces.append((int(m.group(1)), m.group(2), m.group(3), []))
                elif t.startswith('//@attr'):
                    attrs.append(t[len('//@attr'):].strip())
                elif t.startswith('//@proof'):
                    m = re.match(r'//@proof\s+(before|after)\s*::\s*(.*)$', t)
                    if not m:
                        raise AnchorLost('bad proof directive: ' + t)
                    mode = ('proof', len(proofs))
                    proofs.append([m.group(1), m.group(2), [], 'proof'])
                elif t.startswith('//@ghost'):
                    # raw `let ghost x = e;` declarations (must scope over the rest of the body)
                    m = re.match(r'//@ghost\s+(before|after)\s*::\s*(.*)$', t)
                    if not m:
                        raise AnchorLost('bad ghost directive: ' + t)
                    mode = ('proof', len(proofs))
                    proofs.append([m.group(1), m.group(2), [], 'ghost'])
                elif isinstance(mode, tuple) and mode[0] == 'proof':
                    proofs[mode[1]][2].append(tl[i])
                elif mode == 'spec':
                    spec.append(tl[i])
                elif isinstance(mode, tuple) and mode[0] == 'loop':
                    loops[mode[1]].append(tl[i])
                i += 1
            if i >= len(tl):
                raise AnchorLost('directive without //@end in ' + template_path)
            i += 1  # skip //@end
            if is_fn:
                _emit_fn(g, source(args['file']), args, spec, loops, replaces, proofs, attrs)
            else:
                _emit_struct(g, source(args['file']), args, replaces, attrs)
            continue
        g.emit(line)
        i += 1
    return g


def _emit_struct(g, src, args, replaces, attrs=()):
    kind = args.get('kind', 'struct')
    a, b = src.find_item(kind, args['name'])
    text = src.text[a:b]
    where = '%s %s (%s)' % (kind, args['name'], args['file'])
    text = extract.strip_vis(text)
    for cnt, old, new, _alts in replaces:
        text = apply_replace(text, cnt, old, new, g.rewrites, where)
    g.emit('// ---- extracted %s:%d %s %s sha=%s ----' % (args['file'], extract._line_of(src.text, a), kind, args['name'], extract.sha(src.text[a:b])))
    for at in attrs:
        if not re.fullmatch(r'#\[verifier::[a-z_]+(\([^\]]*\))?\]', at):
            raise AnchorLost('%s: only #[verifier::..] attributes may be added, got %r' % (where, at))
        g.emit(at)
    g.emit(text)


def _emit_fn(g, src, args, spec, loops, replaces, proofs=(), attrs=()):
    cut = extract.cut_fn(src, args.get('impl', '-'), args['name'], int(args.get('nth', 0)))
    where = 'fn %s (%s:%d)' % (args['name'], args['file'], cut['line_start'])
    header, body = cut['header'], cut['body']
    header = extract.strip_vis(header)
    if 'rename' in args:
        header = re.sub(r'\bfn\s+' + re.escape(args['name']) + r'\b', 'fn ' + args['rename'], header, count=1)
    header = extract.name_return(header, args.get('ret', 'r'))
    before, wh = extract.split_where(header)
    if args.get('where') == 'drop':
        wh = ''
    for cnt, old, new, alts in replaces:
        # rules apply to header+body as one text, split back at the marker
        joined = before + '\x00' + wh + '\x01' + body
        try:
            joined = apply_replace(joined, cnt, old, new, g.rewrites, where)
        except AnchorLost:
            done = False
            for acnt, aold, anew in alts:
                try:
                    joined = apply_replace(joined, acnt, aold, anew, g.rewrites, where + ' [alternative form]')
                    done = True
                    break
                except AnchorLost:
                    continue
            if not done:
                raise
        before, rest = joined.split('\x00')
        wh, body = rest.split('\x01')
    # R6g (global, optional): compound assignment with the non-short-circuit bool operators, which Verus rejects:
    # `x |= e;` -> `{ let vtmp = e; x = x || vtmp; }` (e is still evaluated exactly once, before the update), likewise `&=`.
    # Only sound for bool operands; on integers the rewritten text does not type-check (front-end error -> undecided).
    for op, sc in (('|', '||'), ('&', '&&')):
        pat = re.compile(r'(?<![\w.\]])([A-Za-z_][\w.]*)\s*' + re.escape(op) + r'=\s*([^;{}]+);')
        found = pat.findall(body)
        if found:
            body = pat.sub(lambda m: '{ let vtmp_b = %s; %s = %s %s vtmp_b; }' % (m.group(2), m.group(1), m.group(1), sc), body)
            g.rewrites.append({'where': where, 'old': 'x %s= e; (bool)' % op, 'new': '{ let vtmp_b = e; x = x %s vtmp_b; }' % sc, 'count': len(found)})
    # ghost-only insertions (proof blocks are erased by Verus: executable text unchanged)
    for pos, anchor, plines, pkind in proofs:
        if pkind == 'ghost':
            for pl in plines:
                if pl.strip() and not re.match(r'\s*let ghost (mut )?\w+(: [^=]+)? = [^;]*;\s*$', pl):
                    raise AnchorLost('%s: ghost directive admits only `let ghost x = e;` lines, got %r' % (where, pl))
        pat = re.compile(_ws_pattern(anchor))
        ms = list(pat.finditer(body))
        if len(ms) != 1:
            raise AnchorLost('%s: proof anchor %r matched %d times (need exactly 1)' % (where, anchor, len(ms)))
        at = ms[0].end() if pos == 'after' else ms[0].start()
        ins = ('\nproof {\n' + '\n'.join(plines) + '\n}\n') if pkind == 'proof' else ('\n' + '\n'.join(plines) + '\n')
        body = body[:at] + ins + body[at:]
        g.ghost.append({'where': where, 'pos': pos, 'anchor': anchor, 'lines': len(plines)})
    # splice loop invariants
    if loops:
        found = extract.find_loops(body)
        for n in loops:
            if n >= len(found):
                raise AnchorLost('%s: loop #%d not found (function has %d loops)' % (where, n, len(found)))
        for n in sorted(loops, reverse=True):
            ob = found[n][1]
            ins = '\n' + '\n'.join(loops[n]) + '\n'
            body = body[:ob] + ins + body[ob:]
    spec_text = '\n'.join(spec)
    g.emit('// ---- extracted %s:%d-%d fn %s sha=%s ----' % (args['file'], cut['line_start'], cut['line_end'], args['name'], cut['sha']))
    gen_start = len(g.lines) + 1
    for at in attrs:
        if not re.fullmatch(r'#\[verifier::[a-z_]+(\([^\]]*\))?\]', at):
            raise AnchorLost('%s: only #[verifier::..] attributes may be added, got %r' % (where, at))
        g.emit(at)
    g.emit(before.rstrip())
    if wh.strip():
        g.emit(wh.rstrip())
    if spec_text.strip():
        g.emit(spec_text)
    g.emit(body)
    gen_end = len(g.lines)
    clauses = _count_clauses(spec_text)
    for n in loops:
        for k, v in _count_clauses('\n'.join(loops[n])).items():
            clauses['loop_' + k] = clauses.get('loop_' + k, 0) + v
    g.functions.append({
        'name': args.get('rename', args['name']), 'source_name': args['name'], 'file': args['file'],
        'impl': args.get('impl', '-'),
        'line_start': cut['line_start'], 'line_end': cut['line_end'], 'sha256_16': cut['sha'],
        'gen_start': gen_start, 'gen_end': gen_end, 'clauses': clauses, 'n_loops_annotated': len(loops),
    })


# ---------------------------------------------------------------------------------------------------
# R13: mechanical translation of a captured f64 expression into a Verus spec expression over `real`.
# Grammar (anything else => AnchorLost => undecided, never an alarm):
#   expr := term (('+'|'-') term)*    term := unary (('*'|'/') unary)*    unary := '-' unary | post
#   post := prim ( '.' name '(' [expr] ')' | 'as' type )*
#   prim := float literal | integer literal | path (a leading `self.` is dropped) | '(' expr ')'
# ceil/floor/round -> rceil/rfloor/rround (as real), max/min -> rmax/rmin, `*` -> rmul (opaque product),
# `as f64` -> `as real`, `as usize` -> r2usize (truncating, saturating).
# ASSUMED: f64 arithmetic taken as real arithmetic (no rounding error, no NaN/inf).
def f64_to_real(text):
    toks = re.findall(r'\d+\.\d*|\d+|[A-Za-z_][A-Za-z_0-9]*|[-+*/().,]|\S', text)
    pos = [0]
    def bad(why):
        raise AnchorLost('f64 expression outside the translated subset (R13): %s in: %s' % (why, text))
    def peek(k=0):
        return toks[pos[0] + k] if pos[0] + k < len(toks) else None
    def take(t=None):
        x = peek()
        if x is None or (t is not None and x != t):
            bad('unexpected %r' % (x,))
        pos[0] += 1
        return x
    def expr():
        l = term()
        while peek() in ('+', '-'):
            op = take(); r = term(); l = '(%s %s %s)' % (l, op, r)
        return l
    def term():
        l = unary()
        while peek() in ('*', '/'):
            op = take(); r = unary()
            l = 'rmul(%s, %s)' % (l, r) if op == '*' else '(%s / %s)' % (l, r)
        return l
    def unary():
        if peek() == '-':
            take(); return '(0real - %s)' % unary()
        return post()
    def post():
        p = prim()
        while True:
            if peek() == '.':
                take('.'); name = take(); take('(')
                arg = None
                if peek() != ')':
                    arg = expr()
                take(')')
                if name in ('ceil', 'floor', 'round') and arg is None:
                    p = '(r%s(%s) as real)' % (name, p)
                elif name in ('max', 'min') and arg is not None:
                    p = 'r%s(%s, %s)' % (name, p, arg)
                else:
                    bad('method .%s()' % name)
            elif peek() == 'as':
                take('as'); ty = take()
                if ty == 'f64':
                    p = '(%s as real)' % p
                elif ty == 'usize':
                    p = 'r2usize(%s)' % p
                else:
                    bad('cast to %s' % ty)
            else:
                return p
    def prim():
        t = peek()
        if t == '(':
            take('('); e = expr(); take(')'); return e
        if t is not None and re.match(r'\d+\.\d*$', t):
            take(); return (t + '0' if t.endswith('.') else t) + 'real'
        if t is not None and re.match(r'\d+$', t):
            take(); return t
        if t is not None and re.match(r'[A-Za-z_]', t) and t != 'as':
            take(); path = [t]
            while peek() == '.' and peek(1) is not None and re.match(r'[A-Za-z_]', peek(1)) and peek(2) != '(':
                take('.'); path.append(take())
            if path[0] == 'self' and len(path) > 1:
                path = path[1:]
            return '_'.join(path)
        bad('unexpected %r' % (t,))
    e = expr()
    if peek() is not None:
        bad('trailing %r' % (peek(),))
    return e
