// Native demonstration (real code): a CuckooFilter::union that fails part-way keeps the
// fingerprints it had already transferred, although it reports Err and restores len().
// target: src/filters/cuckoofilter.rs
#[cfg(test)]
mod verif_demo {
    use super::*;
    use rand::SeedableRng;
    use rand_chacha::ChaChaRng;

    #[test]
    fn demo_c12_cuckoo_union_err_unchanged() {
        let mut a = CuckooFilter::<u64, ChaChaRng>::with_params(ChaChaRng::from_seed([0; 32]), 2, 2, 16);
        let mut b = CuckooFilter::<u64, ChaChaRng>::with_params(ChaChaRng::from_seed([1; 32]), 2, 2, 16);
        for x in 0u64..3 {
            a.insert(&x).unwrap();
        }
        for x in 100u64..103 {
            b.insert(&x).unwrap();
        }
        let before = a.clone();
        assert!(a.union(&b).is_err(), "6 fingerprints cannot fit into 4 slots");
        assert_eq!(a.len(), before.len());
        for x in 0u64..2000 {
            assert_eq!(a.query(&x), before.query(&x), "C12: failed union changed the answer for {}", x);
        }
    }
}
