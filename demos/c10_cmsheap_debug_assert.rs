// Native demonstration (real code, debug build as used by `cargo test`): CMSHeap::add panics on a
// first-seen element whose sketch estimate is inflated by collisions while the heap still has room.
// target: src/topk/cmsheap.rs
#[cfg(test)]
mod verif_demo {
    use super::*;

    #[test]
    fn demo_c10_add_never_panics() {
        // 1x1 sketch: everything collides
        let cms = CountMinSketch::<u64>::with_params(1, 1);
        let mut heap = CMSHeap::new(2, cms);
        heap.add(1);
        heap.add(2); // first seen, estimate 2, heap has room
        let mut got: Vec<u64> = heap.iter().collect();
        got.sort();
        assert_eq!(got, vec![1, 2]);
    }
}
