// Native demonstration (real code, no verifier): CuckooFilter::insert returns Ok(false) for a
// brand-new element whenever its first bucket is full and the second one takes it.
// target: src/filters/cuckoofilter.rs
#[cfg(test)]
mod verif_demo {
    use super::*;
    use rand::SeedableRng;
    use rand_chacha::ChaChaRng;

    #[test]
    fn demo_c14_insert_ok_false() {
        let mut cf = CuckooFilter::<u64, ChaChaRng>::with_params(ChaChaRng::from_seed([0; 32]), 2, 8, 16);
        for x in 0u64..14 {
            match cf.insert(&x) {
                Ok(v) => assert!(v, "C14: insert({}) succeeded but reported Ok(false)", x),
                Err(_) => {}
            }
        }
    }
}
