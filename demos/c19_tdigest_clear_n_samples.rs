// Native demonstration (real code): TDigest::clear() keeps the hidden sample counter, which the
// K2/K3 scale functions read, so a cleared digest compresses differently from a fresh one.
// target: src/tdigest.rs
#[cfg(test)]
mod verif_demo {
    use super::*;

    #[test]
    fn demo_c19_clear_equals_fresh() {
        let mut used = TDigest::new(K2::new(20.), 10);
        for i in 0..100_000 {
            used.insert((i % 977) as f64);
        }
        used.clear();
        let mut fresh = TDigest::new(K2::new(20.), 10);
        for i in 0..400 {
            let x = ((i * 37) % 101) as f64;
            used.insert(x);
            fresh.insert(x);
        }
        assert_eq!(used.n_centroids(), fresh.n_centroids(), "C19: cleared digest compresses differently");
        for j in 0..=20 {
            let q = j as f64 / 20.;
            assert_eq!(used.quantile(q), fresh.quantile(q), "C19: cleared digest answers quantile({}) differently", q);
        }
    }
}
