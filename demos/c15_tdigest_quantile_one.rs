// Native demonstration (real code): with more than one centroid quantile(1) is below max().
// target: src/tdigest.rs
#[cfg(test)]
mod verif_demo {
    use super::*;

    #[test]
    fn demo_c15_quantile_one_is_max() {
        let mut t = TDigest::new(K0::new(100.), 0);
        for x in [1.0, 2.0, 3.0, 10.0] {
            t.insert(x);
        }
        assert_eq!(t.quantile(0.), t.min());
        assert_eq!(t.quantile(1.), t.max(), "C15: quantile(1) must equal max()");
    }
}
