// Native demonstration (real code): deserialising a document whose `registers` length does not
// match `b` (or whose `b` is out of range) succeeds, and the resulting sketch panics on use.
// target: src/hyperloglog/serde.rs
#[cfg(test)]
mod verif_demo {
    use crate::hyperloglog::HyperLogLog;
    use serde::{Deserialize, Serialize};
    use std::hash::{BuildHasher, Hasher};

    #[derive(Clone, Debug, Serialize, Deserialize, Eq, PartialEq)]
    struct MyHasher {
        state: u64,
    }
    impl Hasher for MyHasher {
        fn finish(&self) -> u64 {
            self.state
        }
        fn write(&mut self, bytes: &[u8]) {
            let _ = bytes;
        }
    }
    impl BuildHasher for MyHasher {
        type Hasher = Self;
        fn build_hasher(&self) -> Self::Hasher {
            Self { state: 15 }
        }
    }

    #[test]
    fn demo_c20_invalid_documents_are_rejected() {
        // b = 4 needs 16 registers, the document carries 3
        let short = r#"{"registers":[0,0,0],"b":4,"buildhasher":{"state":15}}"#;
        let r: Result<HyperLogLog<str, MyHasher>, _> = serde_json::from_str(short);
        assert!(r.is_err(), "C20: registers length 3 with b = 4 must be rejected");
        // b out of range
        let bad_b = r#"{"registers":[0,0],"b":1,"buildhasher":{"state":15}}"#;
        let r: Result<HyperLogLog<str, MyHasher>, _> = serde_json::from_str(bad_b);
        assert!(r.is_err(), "C20: b = 1 must be rejected");
    }
}
