// ---- LossyCounter::with_epsilon: the f64 window-width formula, complete over all f64 epsilon in [1e-12, 1) (loop-free) ----
// Kani cannot execute `HashMap::new()` (RandomState draws OS randomness through thread-local state); the constructor's
// map is therefore built with a fixed-key hasher state through a Kani stub.  Nothing in these harnesses uses the map.
use crate::verif_sym::{any, assume, harness, vcover};

#[cfg(kani)]
#[allow(unsafe_code)]
fn hm_new_stub<K, V>() -> std::collections::HashMap<K, V> {
    std::collections::HashMap::with_hasher(unsafe { std::mem::zeroed() })
}

harness! {
    #[kani::stub(std::collections::HashMap::new, hm_new_stub)]
    fn c09_lossy_with_epsilon_width_grid() {
        // bounded: the 1022 epsilons num/1024 (exact in f64); 1/epsilon = 1024/num is at least 1/1023 away from an integer
        // unless it is one, so ceil on the rounded quotient equals the exact integer ceiling
        let num: u16 = any();
        assume(num >= 1 && num <= 1023);
        let eps = (num as f64) / 1024.0;
        let lc = LossyCounter::<u64>::with_epsilon(eps);
        vcover!(lc.width > 3, "width above 3 reachable");
        let expect = (1024 + (num as usize) - 1) / (num as usize);
        // the guarantees (lemma_no_miss / lemma_no_intruder) are proved for the window width; they carry over to
        // epsilon() only if one window is at most epsilon of the stream: 1/width <= epsilon, width = ceil(1/epsilon)
        assert!(lc.width == expect, "C09 C11 with_epsilon: window width == ceil(1/epsilon)");
        assert!(lc.epsilon() == eps && lc.n() == 0, "C09 with_epsilon: epsilon() is the requested value, n() starts at 0");
    }
}

// query() over a populated map is NOT reachable for Kani: a six-add history followed by query() did not finish in 15 min
// (hashbrown group probing + SipHash); the query clause of C09 is decided on the Verus side only.
