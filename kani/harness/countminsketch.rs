// ---- CountMinSketch: one-step contract harnesses from ARBITRARY table contents ----------------
use crate::verif_sym::{any, assume, harness, vcover};
use std::hash::Hasher;

/// Fully symbolic BuildHasher over the key universe {0,1,2} (u8 objects): every hash function,
/// including ones that collide whole rows.  finish() = h[iv][key] after write_usize(iv); key.hash(),
/// f[iv - 2] after write_usize(iv) alone (HashIterBuilder::setup_f).
#[derive(Clone, Debug)]
pub(crate) struct SymBH {
    pub(crate) h: [[u64; 3]; 2],
    pub(crate) f: [u64; 4],
}
// element-wise equality (the derived one calls memcmp over 80 bytes, which needs a large unwind bound)
impl PartialEq for SymBH {
    fn eq(&self, o: &Self) -> bool {
        let mut same = true;
        let mut i = 0;
        while i < 3 { same = same && self.h[0][i] == o.h[0][i] && self.h[1][i] == o.h[1][i]; i += 1; }
        let mut i = 0;
        while i < 4 { same = same && self.f[i] == o.f[i]; i += 1; }
        same
    }
}
impl Eq for SymBH {}
pub(crate) struct SymHasher {
    bh: SymBH,
    iv: usize,
    key: Option<u8>,
}
impl Hasher for SymHasher {
    fn finish(&self) -> u64 {
        match self.key {
            Some(k) => self.bh.h[self.iv % 2][(k % 3) as usize],
            None => self.bh.f[(self.iv.wrapping_sub(2)) % 4],
        }
    }
    fn write(&mut self, bytes: &[u8]) {
        if bytes.len() > 0 { self.key = Some(bytes[0]); }
    }
    fn write_u8(&mut self, v: u8) { self.key = Some(v); }
    fn write_usize(&mut self, v: usize) { self.iv = v; }
}
impl BuildHasher for SymBH {
    type Hasher = SymHasher;
    fn build_hasher(&self) -> SymHasher { SymHasher { bh: self.clone(), iv: 0, key: None } }
}
impl SymBH {
    pub(crate) fn new() -> Self {
        SymBH { h: [[any(), any(), any()], [any(), any(), any()]], f: [any(), any(), any(), any()] }
    }
    /// independent oracle: position of key x in row i (enhanced double hashing as documented)
    pub(crate) fn pos(&self, x: u8, i: usize, m: usize) -> usize {
        let m = m as u64;
        let h1 = self.h[0][x as usize] % m;
        let h2 = self.h[1][x as usize] % m;
        let f = self.f[i] % m;
        // h1, h2, f < m <= 2^32: no overflow in u64
        ((h1 + (i as u64 % m) * h2 + f) % m) as usize
    }
}

macro_rules! cms_add_harness {
    ($name:ident, $C:ty, $W:expr, $D:expr) => {
        harness! {
            #[kani::unwind(6)]
            fn $name() {
                const W: usize = $W;
                const D: usize = $D;
                let bh = SymBH::new();
                let mut cms = CountMinSketch::<u8, $C, SymBH>::with_params_and_hasher(W, D, bh.clone());
                assert!(cms.table.len() == W * D, "C11 table has exactly w*d counters");
                let mut before = [[0 as $C; W]; D];
                let mut i = 0;
                while i < D {
                    let mut c = 0;
                    while c < W {
                        let v: $C = any();
                        before[i][c] = v;
                        cms.table[i * W + c] = v;
                        c += 1;
                    }
                    i += 1;
                }
                let x: u8 = any();
                assume(x < 3);
                let n: $C = any();
                // oracle: min over the D cells of x, and no-overflow side condition
                let mut exp_min: $C = <$C>::MAX;
                let mut i = 0;
                while i < D {
                    let p = bh.pos(x, i, W);
                    let v = before[i][p];
                    assume((v as u128) + (n as u128) <= (<$C>::MAX as u128)); // otherwise add_n panics (never wraps)
                    if v < exp_min { exp_min = v; }
                    i += 1;
                }
                let q0 = cms.query_point(&x);
                assert!(q0 == exp_min, "C02 query_point is the minimum of the element's d cells");
                let ret = cms.add_n(&x, &n);
                assert!((ret as u128) == (exp_min as u128) + (n as u128), "C02 add_n returns min(old cells) + n");
                let mut i = 0;
                while i < D {
                    let p = bh.pos(x, i, W);
                    let mut c = 0;
                    while c < W {
                        let exp = (before[i][c] as u128) + if c == p { n as u128 } else { 0 };
                        assert!((cms.table[i * W + c] as u128) == exp, "C02 add_n adds n to exactly one cell per row, all other cells unchanged");
                        c += 1;
                    }
                    i += 1;
                }
                assert!(cms.query_point(&x) == ret, "C02 add_n returns what query_point observes immediately afterwards");
                assert!(cms.table.len() == W * D, "C11 add does not grow the table");
                vcover!(n > 0 && exp_min > 0, "non-trivial add on a non-empty sketch");
            }
        }
    };
}
cms_add_harness!(c02_cms_add_u8_1x1, u8, 1, 1);
cms_add_harness!(c02_cms_add_u8_2x3, u8, 2, 3);
cms_add_harness!(c02_cms_add_u8_3x2, u8, 3, 2);
cms_add_harness!(c02_cms_add_u16_2x2, u16, 2, 2);
cms_add_harness!(c02_cms_add_u32_3x2, u32, 3, 2);
cms_add_harness!(c02_cms_add_u64_2x3, u64, 2, 3);
cms_add_harness!(c02_cms_add_usize_4x1, usize, 4, 1);
cms_add_harness!(c02_cms_add_usize_1x4, usize, 1, 4);

// add(x) == add_n(x, 1)
harness! {
    #[kani::unwind(6)]
    fn c02_cms_add_is_add_one() {
        let bh = SymBH::new();
        let mut a = CountMinSketch::<u8, u8, SymBH>::with_params_and_hasher(2, 2, bh.clone());
        let mut i = 0;
        while i < 4 { let v: u8 = any(); assume(v < 255); a.table[i] = v; i += 1; }
        let mut b = a.clone();
        let x: u8 = any();
        assume(x < 3);
        let ra = a.add(&x);
        let rb = b.add_n(&x, &1);
        assert!(ra == rb && a.table == b.table, "C02 add is add_n with weight one");
    }
}

macro_rules! cms_merge_harness {
    ($name:ident, $C:ty, $W:expr, $D:expr) => {
        harness! {
            #[kani::unwind(8)]
            fn $name() {
                const W: usize = $W;
                const D: usize = $D;
                let bh = SymBH::new();
                let mut a = CountMinSketch::<u8, $C, SymBH>::with_params_and_hasher(W, D, bh.clone());
                let mut b = CountMinSketch::<u8, $C, SymBH>::with_params_and_hasher(W, D, bh.clone());
                let mut ta = [0 as $C; W * D];
                let mut tb = [0 as $C; W * D];
                let mut i = 0;
                while i < W * D {
                    ta[i] = any(); tb[i] = any();
                    assume((ta[i] as u128) + (tb[i] as u128) <= (<$C>::MAX as u128)); // otherwise merge panics
                    a.table[i] = ta[i]; b.table[i] = tb[i];
                    i += 1;
                }
                a.merge(&b);
                let mut i = 0;
                while i < W * D {
                    assert!((a.table[i] as u128) == (ta[i] as u128) + (tb[i] as u128), "C02 C06 merge adds the tables cell by cell");
                    assert!(b.table[i] == tb[i], "C06 merge leaves the other sketch unchanged");
                    i += 1;
                }
                assert!(a.table.len() == W * D, "C11 merge keeps the table size");
                a.clear();
                let mut i = 0;
                while i < W * D { assert!(a.table[i] == 0, "C02 C19 clear zeroes every counter"); i += 1; }
                assert!(a.is_empty(), "C19 cleared sketch is empty");
                assert!(a.table.len() == W * D && a.w == W && a.d == D, "C19 C11 clear keeps the configuration");
            }
        }
    };
}
cms_merge_harness!(c06_cms_merge_u8_2x3, u8, 2, 3);
cms_merge_harness!(c06_cms_merge_u64_3x2, u64, 3, 2);

// is_empty is exact: true iff every counter is zero
harness! {
    #[kani::unwind(8)]
    fn c19_cms_is_empty_exact() {
        let bh = SymBH::new();
        let mut a = CountMinSketch::<u8, u8, SymBH>::with_params_and_hasher(3, 2, bh);
        let mut all_zero = true;
        let mut i = 0;
        while i < 6 { let v: u8 = any(); a.table[i] = v; if v != 0 { all_zero = false; } i += 1; }
        assert!(a.is_empty() == all_zero, "C19 is_empty iff all counters are zero");
    }
}

// clone(): independent copy (bounded: 2x2 table of u8 counters, arbitrary contents)
harness! {
    #[kani::unwind(8)]
    fn c19_cms_clone_independent() {
        let bh = SymBH::new();
        let mut a = CountMinSketch::<u8, u8, SymBH>::with_params_and_hasher(2, 2, bh);
        let mut t = [0u8; 4];
        let mut i = 0;
        while i < 4 { let v: u8 = any(); assume(v < 200); a.table[i] = v; t[i] = v; i += 1; }
        let mut b = a.clone();
        let x: u8 = any();
        assume(x < 3);
        assert!(a.query_point(&x) == b.query_point(&x), "C19 a clone answers identically at the time of cloning");
        let which: bool = any();
        if which { a.add(&x); } else { b.add(&x); }
        let untouched = if which { &b } else { &a };
        let mut i = 0;
        while i < 4 { assert!(untouched.table[i] == t[i], "C19 clone and original do not share state"); i += 1; }
    }
}
