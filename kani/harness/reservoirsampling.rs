// ---- ReservoirSampling: bounded harnesses with the REAL rand sampling code and the REAL f64 gap code ----
use crate::verif_sym::{any, assume, harness, vcover};

/// RNG returning a constant word (extreme outputs: all zeros / all ones)
#[derive(Clone)]
struct ConstRng(u64);
impl rand::RngCore for ConstRng {
    fn next_u32(&mut self) -> u32 { self.0 as u32 }
    fn next_u64(&mut self) -> u64 { self.0 }
    fn fill_bytes(&mut self, dest: &mut [u8]) { for b in dest.iter_mut() { *b = self.0 as u8; } }
    fn try_fill_bytes(&mut self, dest: &mut [u8]) -> Result<(), rand::Error> { self.fill_bytes(dest); Ok(()) }
}

fn run_all_zero(k: usize, n: usize) {
    let mut rs = ReservoirSampling::<usize, ConstRng>::new(k, ConstRng(0));
    let mut i = 0;
    while i < n {
        rs.add(i);
        i += 1;
        assert!(rs.i() == i, "C18 i() counts the adds");
        assert!(rs.reservoir().len() == if i < k { i } else { k }, "C18 exactly min(n, k) items");
        let mut a = 0;
        while a < rs.reservoir().len() {
            assert!(rs.reservoir()[a] < i, "C18 every item is one of the added items");
            if i <= k { assert!(rs.reservoir()[a] == a, "C18 stream prefix in order until the (k+1)-th add"); }
            let mut b = a + 1;
            while b < rs.reservoir().len() { assert!(rs.reservoir()[a] != rs.reservoir()[b], "C18 no stream position occurs twice"); b += 1; }
            a += 1;
        }
    }
}
// all three phases and both boundaries with the all-zero RNG word: add never panics
harness! { #[kani::unwind(12)] fn c18_reservoir_all_zero_rng_k1() { run_all_zero(1, 8); } }
harness! { #[kani::unwind(16)] fn c18_reservoir_all_zero_rng_k2() { run_all_zero(2, 12); } }

// Extend::extend is add() in a loop: a short iterator during fill-up leaves exactly its items (bounded: k = 3, n <= 2)
harness! {
    #[kani::unwind(6)]
    fn c18_reservoir_extend_short_iter() {
        let mut rs = ReservoirSampling::<usize, ConstRng>::new(3, ConstRng(0));
        let n: usize = any();
        assume(n <= 2);
        let mut v: Vec<usize> = Vec::new();
        let mut i = 0;
        while i < n { v.push(i); i += 1; }
        rs.extend(v);
        assert!(rs.i() == n, "C18 i() equals the number of items fed through extend");
        assert!(rs.reservoir().len() == n, "C18 exactly min(n, k) items after extend");
        assert!(rs.is_empty() == (n == 0), "C18 is_empty iff nothing was added");
        let mut a = 0;
        while a < n { assert!(rs.reservoir()[a] == a, "C18 stream prefix in order"); a += 1; }
        rs.add(7);
        assert!(rs.reservoir().len() == n + 1 && rs.reservoir()[n] == 7, "C18 fill-up continues after a short extend");
    }
}

// a clone taken during fill-up continues exactly like the original (C19 clone independence, C18 prefix)
harness! {
    #[kani::unwind(8)]
    fn c19_reservoir_clone_mid_fillup() {
        let mut a = ReservoirSampling::<usize, ConstRng>::new(4, ConstRng(0));
        a.add(10);
        a.add(11);
        let mut b = a.clone();
        a.add(12);
        b.add(20);
        b.add(21);
        assert!(a.reservoir().len() == 3 && a.reservoir()[2] == 12 && a.i() == 3, "C19 the original is unaffected by the clone");
        assert!(b.reservoir().len() == 4 && b.reservoir()[0] == 10 && b.reservoir()[1] == 11 && b.reservoir()[2] == 20 && b.reservoir()[3] == 21 && b.i() == 4,
            "C18 C19 a clone taken during fill-up keeps filling up in order");
    }
}

// extend() on a sampler that is already past fill-up (i > k), with an iterator whose size hint is far above k: no panic,
// still a valid sample, and the reservoir's allocation does not grow with the stream (bounded: k = 1, one concrete history)
harness! {
    #[kani::unwind(12)]
    fn c18_reservoir_extend_after_fillup() {
        let mut rs = ReservoirSampling::<usize, ConstRng>::new(1, ConstRng(0));
        rs.add(0);
        rs.add(1);
        rs.add(2);
        let cap0 = rs.reservoir.capacity();
        rs.extend(vec![3usize, 4, 5, 6, 7, 8]);
        assert!(rs.i() == 9, "C18 i() counts the items fed through extend");
        assert!(rs.reservoir().len() == 1 && rs.reservoir()[0] < 9, "C18 exactly k items, each one of the added items");
        assert!(rs.reservoir.capacity() <= if cap0 > 4 { cap0 } else { 4 }, "C11 extend does not allocate beyond the k-item reservoir (k items within a small constant factor)");
    }
}
