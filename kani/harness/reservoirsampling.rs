// ---- ReservoirSampling: bounded harnesses with the REAL rand sampling code and the REAL f64 gap code ----
use crate::verif_sym::{any, assume, harness, vcover};

/// RNG returning a constant word (extreme outputs: all zeros / all ones)
struct ConstRng(u64);
impl rand::RngCore for ConstRng {
    fn next_u32(&mut self) -> u32 { self.0 as u32 }
    fn next_u64(&mut self) -> u64 { self.0 }
    fn fill_bytes(&mut self, dest: &mut [u8]) { for b in dest.iter_mut() { *b = self.0 as u8; } }
    fn try_fill_bytes(&mut self, dest: &mut [u8]) -> Result<(), rand::Error> { self.fill_bytes(dest); Ok(()) }
}

fn run_all_zero(k: usize, n: usize) {
    let mut rs = ReservoirSampling::<usize, ConstRng>::new(k, ConstRng(0));
    let mut i = 0;
    while i < n {
        rs.add(i);
        i += 1;
        assert!(rs.i() == i, "C18 i() counts the adds");
        assert!(rs.reservoir().len() == if i < k { i } else { k }, "C18 exactly min(n, k) items");
        let mut a = 0;
        while a < rs.reservoir().len() {
            assert!(rs.reservoir()[a] < i, "C18 every item is one of the added items");
            if i <= k { assert!(rs.reservoir()[a] == a, "C18 stream prefix in order until the (k+1)-th add"); }
            let mut b = a + 1;
            while b < rs.reservoir().len() { assert!(rs.reservoir()[a] != rs.reservoir()[b], "C18 no stream position occurs twice"); b += 1; }
            a += 1;
        }
    }
}
// all three phases and both boundaries with the all-zero RNG word: add never panics
harness! { #[kani::unwind(12)] fn c18_reservoir_all_zero_rng_k1() { run_all_zero(1, 8); } }
harness! { #[kani::unwind(16)] fn c18_reservoir_all_zero_rng_k2() { run_all_zero(2, 12); } }
