// ---- HashIterBuilder: the two pieces the Verus unit takes on trust ---------------------------------
use crate::countminsketch::verif::SymBH;
use crate::verif_sym::{any, assume, harness, vcover};

// setup_f (iterator chain `(0..k).map(..).collect()`, assumed in Verus): k entries, each < m, entry i is the
// hash of the single word i+2 reduced mod m; iter_for yields exactly k positions, each the documented function
fn builder_case(m: usize, k: usize) {
    let bh = SymBH::new();
    let b = HashIterBuilder::new(m, k, bh.clone());
    assert!(b.f.len() == k, "C01 C02 setup_f creates exactly k shift values");
    let mut i = 0;
    while i < k {
        assert!(b.f[i] < m as u64, "C01 C02 every shift value is below m");
        assert!(b.f[i] == bh.f[i] % (m as u64), "C01 C02 shift value i is the hash of the word i+2 reduced mod m");
        i += 1;
    }
    let x: u8 = any();
    assume(x < 3);
    let mut it = b.iter_for(&x);
    let mut i = 0;
    while i < k {
        let p = it.next();
        assert!(p == Some(bh.pos(x, i, m)), "C01 C02 i-th position is (h1 + (i mod m)*h2 + f[i]) mod m");
        assert!(p.unwrap() < m, "C01 C02 position in range");
        i += 1;
    }
    assert!(it.next().is_none(), "C01 C02 exactly k positions");
}
harness! { #[kani::unwind(6)] fn hashiter_setup_f_m1_k3() { builder_case(1, 3); } }
harness! { #[kani::unwind(6)] fn hashiter_setup_f_m4_k3() { builder_case(4, 3); } }
harness! { #[kani::unwind(6)] fn hashiter_setup_f_m7_k2() { builder_case(7, 2); } }
