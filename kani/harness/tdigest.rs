// ---- TDigest: contract harnesses on TDigestInner from ARBITRARY well-formed centroid vectors ----
// f64 is bit-precise in CBMC.  Domain (bounded): <= 3 centroids, weights 1..=4, means/min/max on the
// grid j/4, q on j/32, x on j/8 -- every intermediate except one division is exactly representable.
use crate::verif_sym::{any, assume, harness, vcover};

fn grid(lo: i8, hi: i8, den: f64) -> f64 {
    let j: i8 = any();
    assume(j >= lo && j <= hi);
    (j as f64) / den
}

fn weight() -> f64 {
    let w: u8 = any();
    assume(w >= 1 && w <= 4);
    w as f64
}

/// arbitrary well-formed digest with `n` centroids (means non-decreasing, min <= first mean, last mean <= max)
fn digest(n: usize, strict: bool) -> TDigestInner<K0> {
    let mut d = TDigestInner::new(K0::new(10.), 100);
    let mut last = grid(-8, 8, 4.);
    d.min = last - grid(0, 2, 4.);
    if strict { assume(d.min < last); }
    let mut i = 0;
    while i < n {
        let m = if i == 0 { last } else { let m = last + grid(0, 4, 4.); if strict { assume(m > last); } m };
        let w = weight();
        d.centroids.push(Centroid { sum: m * w, count: w });
        last = m;
        i += 1;
    }
    d.max = last + grid(0, 2, 4.);
    if strict { assume(d.max > last); }
    d.n_samples = any();
    d
}

const TOL: f64 = 1e-9;

macro_rules! td_endpoints {
    ($name:ident, $n:expr) => {
        harness! {
            #[kani::unwind(5)]
            fn $name() {
                let d = digest($n, false);
                assert!(d.quantile(0.) == d.min, "C15 quantile(0) equals min()");
                assert!(d.quantile(1.) == d.max, "C15 quantile(1) equals max()");
                vcover!(d.centroids[0].count > 1., "outermost centroid heavier than one");
            }
        }
    };
}
td_endpoints!(c15_td_endpoints_1, 1);
td_endpoints!(c15_td_endpoints_2, 2);
td_endpoints!(c15_td_endpoints_3, 3);

macro_rules! td_quantile_shape {
    ($name:ident, $n:expr) => {
        harness! {
            #[kani::unwind(5)]
            fn $name() {
                let d = digest($n, false);
                let q1 = grid(0, 32, 32.);
                let q2 = grid(0, 32, 32.);
                assume(q1 <= q2);
                let v1 = d.quantile(q1);
                let v2 = d.quantile(q2);
                // the property allows a few ulps of the data range for the floating-point interpolation
                // t*b + (1-t)*a; the grid values are O(1), so an absolute 1e-9 is far tighter than that
                assert!(v1 >= d.min - TOL && v1 <= d.max + TOL, "C15 quantile lies within [min, max]");
                assert!(v1 <= v2 + TOL, "C15 quantile is non-decreasing in q");
                vcover!(q1 < q2 && v1 < v2, "strictly increasing pair");
            }
        }
    };
}
td_quantile_shape!(c15_td_quantile_shape_1, 1);
td_quantile_shape!(c15_td_quantile_shape_2, 2);
td_quantile_shape!(c15_td_quantile_shape_3, 3);

macro_rules! td_cdf_shape {
    ($name:ident, $n:expr) => {
        harness! {
            #[kani::unwind(5)]
            fn $name() {
                let d = digest($n, false);
                let x1 = grid(-24, 24, 8.);
                let x2 = grid(-24, 24, 8.);
                assume(x1 <= x2);
                let c1 = d.cdf(x1);
                let c2 = d.cdf(x2);
                assert!(c1 >= 0. && c1 <= 1. + TOL, "C15 cdf lies within [0, 1]");
                assert!(c1 <= c2 + TOL, "C15 cdf is non-decreasing in x");
                if x1 < d.min { assert!(c1 == 0., "C15 cdf is 0 below min()"); }
                if x1 >= d.max { assert!(c1 == 1., "C15 cdf is 1 from max() upward"); }
                vcover!(x1 > d.min && x2 < d.max && c1 < c2, "interior strictly increasing pair");
            }
        }
    };
}
td_cdf_shape!(c15_td_cdf_shape_1, 1);
td_cdf_shape!(c15_td_cdf_shape_2, 2);
td_cdf_shape!(c15_td_cdf_shape_3, 3);

macro_rules! td_consistent {
    ($name:ident, $n:expr) => {
        harness! {
            #[kani::unwind(5)]
            fn $name() {
                // strictly increasing knots: quantile and cdf are mutually inverse piecewise-linear maps
                let d = digest($n, true);
                let q = grid(0, 32, 32.);
                let x = d.quantile(q);
                let back = d.cdf(x);
                let diff = if back > q { back - q } else { q - back };
                assert!(diff <= 1e-6, "C15 cdf(quantile(q)) is q, including both tails");
                vcover!(q > 0.9 && q < 1., "right tail");
            }
        }
    };
}
td_consistent!(c15_td_consistent_1, 1);
td_consistent!(c15_td_consistent_2, 2);
td_consistent!(c15_td_consistent_3, 3);

// one CONCRETE digest with unequal outer weights (4, 6, 3; means 0, 10, 20; min -2, max 26), q on the grid j/104:
// the two tails and the interior agree with cdf, stay in range and are monotone
harness! {
    #[kani::unwind(6)]
    fn c15_td_concrete_weighted_grid_q() {
        let mut d = TDigestInner::new(K0::new(10.), 100);
        d.centroids.push(Centroid { sum: 0., count: 4. });
        d.centroids.push(Centroid { sum: 60., count: 6. });
        d.centroids.push(Centroid { sum: 60., count: 3. });
        d.min = -2.; d.max = 26.; d.n_samples = 13;
        let q1 = grid(0, 104, 104.);        // q on j/104: 13 total weight x 8 steps per unit of weight
        let q2 = grid(0, 104, 104.);
        assume(q1 <= q2);
        let v1 = d.quantile(q1);
        let v2 = d.quantile(q2);
        assert!(v1 >= -2. - TOL && v2 <= 26. + TOL, "C15 quantile lies within [min, max]");
        assert!(v1 <= v2 + TOL, "C15 quantile is non-decreasing in q");
        let back = d.cdf(v1);
        let diff = if back > q1 { back - q1 } else { q1 - back };
        assert!(diff <= 1e-6, "C15 cdf(quantile(q)) is q, including both tails");
        vcover!(q1 > 0.9 && q1 < 1., "inside the right tail");
        vcover!(q1 > 0. && q1 < 0.1, "inside the left tail");
    }
}

harness! {
    fn c15_td_empty() {
        let d = TDigestInner::new(K0::new(10.), 3);
        let q: f64 = any();
        let x: f64 = any();
        assume(q >= 0. && q <= 1. && !x.is_nan());
        assert!(d.quantile(q).is_nan(), "C15 empty digest: quantile is NaN");
        assert!(d.cdf(x) == 0., "C15 empty digest: cdf is 0");
        assert!(d.is_empty(), "C16 fresh digest is empty");
    }
}

/// total weight / weighted sum / number of entries held by a digest, wherever they sit (merged centroids or pending backlog):
/// the harnesses below speak about these, not about WHERE an insert is parked
fn totals<S: ScaleFunction + Clone + std::fmt::Debug>(d: &TDigestInner<S>) -> (f64, f64, usize) {
    let (mut c, mut sm, mut n) = (0., 0., 0);
    let mut i = 0;
    while i < d.centroids.len() { c += d.centroids[i].count; sm += d.centroids[i].sum; n += 1; i += 1; }
    let mut i = 0;
    while i < d.backlog.len() { c += d.backlog[i].count; sm += d.backlog[i].sum; n += 1; i += 1; }
    (c, sm, n)
}

// ---- C15: interpolate between knots that are as far apart as finite doubles can be ----
// every value quantile()/cdf() return between two knots goes through interpolate(a, b, t).  (A harness over ALL finite
// a <= b and all t in [0, 1] was tried first: CBMC's budget is exhausted after 10 min -- two symbolic multiplications and
// an addition.)  Bounded stand-in: a = -i * 2^1021, b = j * 2^1021 (i, j in 0..=7, so b - a may exceed f64::MAX) and
// t = k/8: every product and the sum are exact, so the result must lie in [a, b] exactly and hit the knots at t = 0, 1.
harness! {
    #[kani::unwind(2)]
    fn c15_td_interpolate_wide_knots() {
        let (i, j, k): (u8, u8, u8) = (any(), any(), any());
        assume(i <= 7 && j <= 7 && k <= 8);
        let unit = f64::from_bits(0x7FC0_0000_0000_0000);    // 2^1021
        let a = -(i as f64) * unit;
        let b = (j as f64) * unit;
        let t = (k as f64) / 8.;
        let r = TDigestInner::<K0>::interpolate(a, b, t);
        assert!(r.is_finite(), "C15 interpolation between finite knots is finite");
        assert!(a <= r && r <= b, "C15 interpolation stays between its knots (quantile within [min, max])");
        if k == 0 { assert!(r == a, "C15 interpolation hits the lower knot exactly"); }
        if k == 8 { assert!(r == b, "C15 interpolation hits the upper knot exactly"); }
        vcover!(i == 7 && j == 7 && k == 4, "knots further apart than f64::MAX");
    }
}

// ---- C16: insert_weighted on the full f64 domain (loop-free: complete) ----
harness! {
    #[kani::unwind(4)]
    fn c16_td_insert_weighted_inner() {
        let mut d = TDigestInner::new(K0::new(10.), 1000);
        d.min = any();
        d.max = any();
        assume(!d.min.is_nan() && !d.max.is_nan());
        let n0: usize = any();
        assume(n0 < usize::MAX);
        d.n_samples = n0;
        let x: f64 = any();
        let w: f64 = any();
        assume(x.is_finite() && w.is_finite() && w > 0.);
        let (min0, max0) = (d.min, d.max);
        d.insert_weighted(x, w);
        assert!(d.min == if x < min0 { x } else { min0 }, "C16 min() is exactly the smallest inserted value");
        assert!(d.max == if x > max0 { x } else { max0 }, "C16 max() is exactly the largest inserted value");
        let (c, sm, n) = totals(&d);
        assert!(n == 1 && c == w && sm == x * w, "C16 a single insert is held exactly: count == w, sum == x * w");
        assert!(d.n_samples == n0 + 1, "C16 insert counts one sample");
        assert!(!d.is_empty(), "C16 C19 not empty after a positive-weight insert");
    }
}

// the same from a state with one pending backlog entry and one centroid (bounded: weights 1..4, values on j/4, so that all
// sums are exact in f64 whatever the order of accumulation): mass is conserved WHEREVER the insert is parked -- a correct
// implementation may keep it as its own entry or fold it into a pending one
harness! {
    #[kani::unwind(5)]
    fn c16_td_insert_weighted_inner_pending() {
        let mut d = TDigestInner::new(K0::new(10.), 1000);
        let (c0, c1) = (weight(), weight());
        let (m0, m1) = (grid(-8, 8, 4.), grid(-8, 8, 4.));
        d.centroids.push(Centroid { count: c1, sum: m1 * c1 });
        d.backlog.push(Centroid { count: c0, sum: m0 * c0 });
        d.min = -2.; d.max = 2.;
        d.n_samples = 2;
        let x = grid(-8, 8, 4.);
        let w = weight();
        d.insert_weighted(x, w);
        let (c, sm, n) = totals(&d);
        assert!(n >= 1 && n <= 3 && d.n_samples == 3, "C16 insert adds one sample and never creates more than one entry");
        assert!(c == c1 + c0 + w, "C16 count() grows by exactly the inserted weight, whatever is pending");
        assert!(sm == m1 * c1 + m0 * c0 + x * w, "C16 sum() grows by exactly the weighted value, whatever is pending");
        vcover!(x == m0 && w > 1., "repeated value with a non-unit weight");
    }
}

// zero weight changes nothing (wrapper): complete
harness! {
    fn c16_td_zero_weight_noop() {
        let mut t = TDigest::new(K0::new(10.), 5);
        let x: f64 = any();
        assume(x.is_finite());
        t.insert_weighted(x, 0.);
        let inner = t.inner.borrow();
        assert!(inner.backlog.is_empty() && inner.centroids.is_empty() && inner.n_samples == 0
            && inner.min == f64::INFINITY && inner.max == f64::NEG_INFINITY, "C16 zero-weight insert changes nothing");
        drop(inner);
        assert!(t.is_empty(), "C16 is_empty stays true after zero-weight inserts");
    }
}

// count()/sum()/mean(): exact sums over the centroids (small integers and dyadic means: f64 addition is exact)
harness! {
    #[kani::unwind(5)]
    fn c16_td_count_sum_exact() {
        let d = digest(2, false);
        let (c0, c1) = (d.centroids[0].count, d.centroids[1].count);
        let (s0, s1) = (d.centroids[0].sum, d.centroids[1].sum);
        assert!(d.count() == c0 + c1, "C16 count() is the sum of the centroid weights");
        assert!(d.sum() == s0 + s1, "C16 sum() is the sum of the centroid sums");
        let t = TDigest { inner: RefCell::new(d) };
        assert!(t.count() == c0 + c1 && t.sum() == s0 + s1, "C16 public count()/sum() report the inner aggregates");
        assert!(t.mean() == (s0 + s1) / (c0 + c1), "C16 mean() is sum()/count()");
        assert!(!t.is_empty(), "C16 a digest holding centroids is not empty");
    }
}

// mean()/count()/sum() as the FIRST read after inserts that are still in the backlog (bounded: one concrete insert)
harness! {
    #[kani::unwind(6)]
    fn c16_td_first_read_sees_backlog() {
        let mut t = TDigest::new(K0::new(10.), 5);
        // concrete values: merge() (drain/chain/sort/collect) is too expensive for CBMC with symbolic floats
        let (x, w) = (1.5, 2.0);
        t.insert_weighted(x, w);
        let which: u8 = any();
        if which == 0 {
            assert!(t.mean() == x, "C16 mean() as first read includes the backlog");
        } else if which == 1 {
            assert!(t.count() == w, "C16 count() as first read includes the backlog");
        } else {
            assert!(t.sum() == x * w, "C16 sum() as first read includes the backlog");
        }
    }
}

// cdf()/quantile() as the FIRST read after an insert that is still in the backlog (bounded: one concrete insert): the tails and
// end points are those of the data, not of the still empty centroid list
harness! {
    #[kani::unwind(6)]
    fn c15_td_first_read_tails() {
        let mut t = TDigest::new(K0::new(10.), 5);
        t.insert_weighted(1.5, 2.0);
        let which: u8 = any();
        if which == 0 {
            assert!(t.cdf(2.0) == 1., "C15 cdf is 1 from max() upward, also as first read after inserts");
        } else if which == 1 {
            assert!(t.cdf(1.5) == 1., "C15 cdf is 1 from max() upward, also as first read after inserts");
        } else if which == 2 {
            assert!(t.cdf(1.0) == 0., "C15 cdf is 0 below min()");
        } else if which == 3 {
            assert!(t.quantile(0.) == 1.5 && t.quantile(1.) == 1.5, "C15 quantile(0) == min, quantile(1) == max as first read");
        } else {
            let a = t.cdf(2.0);
            let _ = t.count();
            assert!(t.cdf(2.0).to_bits() == a.to_bits(), "C15 repeated reads return identical values");
        }
    }
}

// extreme magnitudes: x * w overflows to +inf although x and w are finite -- the weight still counts (fully concrete)
harness! {
    #[kani::unwind(6)]
    fn c16_td_overflowing_product_counts() {
        let mut t = TDigest::new(K0::new(10.), 5);
        t.insert_weighted(1e200, 1e200);
        assert!(!t.is_empty(), "C16 is_empty is false once a positive weight was inserted");
        assert!(t.count() == 1e200, "C16 count() equals the sum of the inserted weights, whatever the magnitude of the values");
        assert!(t.min() == 1e200 && t.max() == 1e200, "C16 min()/max() are exactly the inserted value");
    }
}

// the same value twice in a row with non-unit weights, no read in between (fully concrete; merge of two backlog entries)
harness! {
    #[kani::unwind(8)]
    fn c16_td_repeated_value_weighted() {
        let mut t = TDigest::new(K0::new(10.), 5);
        t.insert_weighted(10., 2.);
        t.insert_weighted(10., 3.);
        {
            let inner = t.inner.borrow();
            let (c, sm, _n) = totals(&inner);
            assert!(c == 5. && sm == 50., "C16 every insert is accounted with its weight and weighted value");
        }
        assert!(t.count() == 5. && t.sum() == 50. && t.mean() == 10., "C16 count/sum/mean after repeated weighted inserts of one value");
    }
}

// public wrapper: a positive finite weight always reaches the digest (complete, loop-free)
harness! {
    #[kani::unwind(4)]
    fn c16_td_insert_weighted_wrapper() {
        let mut t = TDigest::new(K0::new(10.), 5);
        let x: f64 = any();
        let w: f64 = any();
        assume(x.is_finite() && w.is_finite() && w > 0.);
        t.insert_weighted(x, w);
        let inner = t.inner.borrow();
        let (c, sm, n) = totals(&inner);
        assert!(n == 1 && c == w && sm == x * w, "C16 every positive weight is accounted, however small");
        assert!(inner.min == x && inner.max == x && inner.n_samples == 1, "C16 min()/max() are exactly the inserted value");
        drop(inner);
        assert!(!t.is_empty(), "C16 is_empty is false once a positive weight was inserted");
        assert!(t.min() == x && t.max() == x, "C16 min()/max() wrappers");
    }
}

// the same on a concrete grid of (x, w) whose products are inexact ((x*w)/w != x for several pairs): fully concrete, so
// CBMC only folds constants -- catches min/max taken from a recomputed mean where the symbolic version runs out of budget
harness! {
    #[kani::unwind(8)]
    fn c16_td_insert_weighted_concrete_grid() {
        let xs = [0.1f64, 0.7, 1e-3, 3.3, -2.1, 1e10];
        let ws = [3.0f64, 0.1, 7.0, 1e-5, 49.0];
        let mut i = 0;
        while i < xs.len() {
            let mut j = 0;
            while j < ws.len() {
                let (x, w) = (xs[i], ws[j]);
                let mut t = TDigest::new(K0::new(10.), 5);
                t.insert_weighted(x, w);
                assert!(t.min() == x && t.max() == x, "C16 min()/max() are exactly the inserted value");
                {
                    let inner = t.inner.borrow();
                    let (c, sm, n) = totals(&inner);
                    assert!(n == 1 && c == w && sm == x * w && inner.n_samples == 1, "C16 every positive weight is accounted");
                }
                j += 1;
            }
            i += 1;
        }
    }
}

// (a fully concrete three-entry merge -- centroid 5, backlog 6, 1 -- was tried as harness and exhausted 20 GB in CBMC after 5 min:
// sort_by + drain/chain/collect on a Vec of pairs; merges of three or more entries stay undecided, DESIGN.md section 13)

// public wrapper on an empty digest: NaN / 0 for every q and x (complete, loop-free)
harness! {
    fn c15_td_empty_wrapper() {
        let t = TDigest::new(K0::new(10.), 5);
        let q: f64 = any();
        let x: f64 = any();
        assume(q >= 0. && q <= 1. && !x.is_nan());
        assert!(t.quantile(q).is_nan(), "C15 empty digest: quantile is NaN for every q including 0 and 1");
        assert!(t.cdf(x) == 0., "C15 empty digest: cdf is 0");
        assert!(t.is_empty() && t.count() == 0., "C16 empty digest");
    }
}

/// adversarial scale function: f and f_inv return arbitrary values on every call, so every merge
/// schedule (which neighbours get fused) is explored
#[derive(Clone, Debug)]
struct AdvScale;
impl ScaleFunction for AdvScale {
    fn delta(&self) -> f64 { 2. }
    fn f(&self, _q: f64, _n: usize) -> f64 {
        // merge() normalises by the TOTAL WEIGHT: the rank handed to the scale function lies in [0, 1]
        assert!(_q >= 0. && _q <= 1. + 1e-9, "C11 C15 merge hands the scale function a rank in [0,1]");
        let v: f64 = any(); assume(!v.is_nan()); v
    }
    fn f_inv(&self, _k: f64, _n: usize) -> f64 { let v: f64 = any(); assume(!v.is_nan()); v }
}

macro_rules! td_merge {
    ($name:ident, $nc:expr, $nb:expr, $unw:expr) => {
        harness! {
            #[kani::unwind($unw)]
            fn $name() {
                let mut d = TDigestInner::new(AdvScale, 100);
                let mut cnt = 0.;
                let mut sum = 0.;
                let mut last = grid(-4, 4, 1.);
                let mut i = 0;
                while i < $nc {
                    let m = if i == 0 { last } else { last + grid(0, 3, 1.) };
                    let w = weight();
                    d.centroids.push(Centroid { sum: m * w, count: w });
                    cnt += w; sum += m * w; last = m;
                    i += 1;
                }
                let mut i = 0;
                while i < $nb {
                    let m = grid(-4, 8, 1.);
                    let w = weight();
                    d.backlog.push(Centroid { sum: m * w, count: w });
                    cnt += w; sum += m * w;
                    i += 1;
                }
                d.min = any(); d.max = any(); d.n_samples = any();
                let (min0, max0, n0) = (d.min, d.max, d.n_samples);
                d.merge();
                // small integers: f64 addition is exact, so conservation is an equality
                assert!(d.count() == cnt, "C16 count() is conserved by compression, whatever the scale function decides");
                assert!(d.sum() == sum, "C16 sum() is conserved by compression, whatever the scale function decides");
                assert!(d.backlog.is_empty(), "C11 C16 merge empties the backlog");
                assert!(d.centroids.len() >= 1 && d.centroids.len() <= $nc + $nb, "C11 merge never creates centroids");
                let mut i = 0;
                while i + 1 < d.centroids.len() {
                    assert!(d.centroids[i].mean() <= d.centroids[i + 1].mean(), "C15 merge leaves centroid means sorted");
                    i += 1;
                }
                let mut i = 0;
                while i < d.centroids.len() { assert!(d.centroids[i].count > 0., "C15 centroid weights stay positive"); i += 1; }
                assert!(d.min.to_bits() == min0.to_bits() && d.max.to_bits() == max0.to_bits() && d.n_samples == n0, "C16 merge does not touch min/max");
                vcover!(d.centroids.len() < $nc + $nb, "some centroids were fused");
                vcover!(d.centroids.len() == $nc + $nb, "nothing was fused");
            }
        }
    };
}
td_merge!(c16_td_merge_1_1, 1, 1, 8);
td_merge!(c16_td_merge_2_1, 2, 1, 8);
td_merge!(c16_td_merge_1_2, 1, 2, 8);

// (merges of three or more entries are out of CBMC's reach even with concrete values: std's sort explodes in memory)

// merge() with an empty backlog returns before touching anything: repeated reads are identical
harness! {
    #[kani::unwind(5)]
    fn c15_td_merge_empty_backlog_noop() {
        let mut d = digest(2, false);
        let (c0s, c0c, c1s, c1c) = (d.centroids[0].sum, d.centroids[0].count, d.centroids[1].sum, d.centroids[1].count);
        let (min0, max0, n0) = (d.min, d.max, d.n_samples);
        d.merge();
        assert!(d.centroids.len() == 2 && d.centroids[0].sum == c0s && d.centroids[0].count == c0c
            && d.centroids[1].sum == c1s && d.centroids[1].count == c1c && d.min == min0 && d.max == max0 && d.n_samples == n0,
            "C15 a read with an empty backlog changes nothing (repeated reads return identical values)");
    }
}

// ---- C19: clear() restores every field a fresh digest has ----
harness! {
    #[kani::unwind(5)]
    fn c19_td_clear_is_fresh() {
        let mut d = digest(2, false);
        d.backlog.push(Centroid { sum: 1., count: 1. });
        d.clear();
        let f = TDigestInner::new(K0::new(10.), 100);
        assert!(d.centroids.len() == f.centroids.len() && d.backlog.len() == f.backlog.len(), "C16 C19 clear empties centroids and backlog");
        assert!(d.min == f.min && d.max == f.max, "C19 clear resets min/max");
        assert!(d.n_samples == f.n_samples, "C19 clear resets the sample counter the K2/K3 scale functions read");
        assert!(d.max_backlog_size == f.max_backlog_size, "C19 clear keeps the configuration");
        assert!(d.is_empty(), "C16 C19 cleared digest is empty");
    }
}

// backlog bounded by max_backlog_size after every insert
harness! {
    #[kani::unwind(8)]
    fn c11_td_backlog_bounded() {
        let mut d = TDigestInner::new(AdvScale, 1);
        d.backlog.push(Centroid { sum: 1., count: 1. });
        d.min = 0.; d.max = 2.; d.n_samples = 3;
        d.insert_weighted(grid(0, 2, 1.), weight());
        assert!(d.backlog.len() <= d.max_backlog_size, "C11 backlog never exceeds max_backlog_size after an insert");
    }
}
// the boundary max_backlog_size = 0: every insert merges at once (an off-by-one in the trigger would never merge)
harness! {
    #[kani::unwind(8)]
    fn c11_td_backlog_bounded_mb0() {
        let mut d = TDigestInner::new(AdvScale, 0);
        d.insert_weighted(grid(0, 2, 1.), weight());
        assert!(d.backlog.is_empty() && d.centroids.len() == 1, "C11 backlog never exceeds max_backlog_size after an insert");
        d.insert_weighted(grid(0, 2, 1.), weight());
        assert!(d.backlog.is_empty() && d.centroids.len() <= 2, "C11 backlog never exceeds max_backlog_size after an insert");
    }
}

// clone() of the public TDigest (RefCell inside): independent copy (bounded: one concrete insert on either side)
harness! {
    #[kani::unwind(6)]
    fn c19_td_clone_independent() {
        let mut a = TDigest::new(K0::new(10.), 5);
        a.insert_weighted(1.5, 2.0);
        let mut b = a.clone();
        let which: bool = any();
        if which { a.insert_weighted(4.0, 1.0); } else { b.insert_weighted(4.0, 1.0); }
        let untouched = if which { &b } else { &a };
        let inner = untouched.inner.borrow();
        assert!(inner.backlog.len() == 1 && inner.backlog[0].count == 2.0 && inner.n_samples == 1 && inner.max == 1.5, "C19 clone and original do not share state");
    }
}

/// scale function that never fuses (q_limit stays 0): merge() only sorts
#[derive(Clone, Debug)]
struct NoFuse;
impl ScaleFunction for NoFuse {
    fn delta(&self) -> f64 { 2. }
    fn f(&self, _q: f64, _n: usize) -> f64 { 0. }
    fn f_inv(&self, _k: f64, _n: usize) -> f64 { -1. }
}

// merge() with one existing centroid and an UNSORTED two-entry backlog whose smallest value lies below the centroid (fully concrete)
harness! {
    #[kani::unwind(5)]
    fn c15_td_merge_three_concrete_sorted() {
        let mut d = TDigestInner::new(NoFuse, 10);
        d.centroids.push(Centroid { sum: 5., count: 1. });
        d.backlog.push(Centroid { sum: 6., count: 1. });
        d.backlog.push(Centroid { sum: 1., count: 1. });
        d.min = 1.; d.max = 6.; d.n_samples = 3;
        d.merge();
        assert!(d.backlog.is_empty() && d.centroids.len() == 3, "C16 merge keeps every entry when nothing is fused");
        assert!(d.centroids[0].sum == 1. && d.centroids[1].sum == 5. && d.centroids[2].sum == 6., "C15 C16 centroids are sorted by mean after merge");
    }
}

// the same with the two backlog values symbolic on an integer grid (bounded): sorted result, mass kept
harness! {
    #[kani::unwind(5)]
    fn c15_td_merge_three_grid_sorted() {
        let mut d = TDigestInner::new(NoFuse, 10);
        let (a, b) = (grid(0, 8, 1.), grid(0, 8, 1.));
        d.centroids.push(Centroid { sum: 5., count: 1. });
        d.backlog.push(Centroid { sum: a, count: 1. });
        d.backlog.push(Centroid { sum: b, count: 1. });
        d.min = 0.; d.max = 8.; d.n_samples = 3;
        d.merge();
        assert!(d.backlog.is_empty() && d.centroids.len() == 3, "C16 merge keeps every entry when nothing is fused");
        assert!(d.centroids[0].sum <= d.centroids[1].sum && d.centroids[1].sum <= d.centroids[2].sum, "C15 C16 centroids are sorted by mean after merge");
        assert!(d.centroids[0].sum + d.centroids[1].sum + d.centroids[2].sum == 5. + a + b, "C16 merge conserves the sum");
        vcover!(b < 5. && a > 5., "backlog straddles the centroid, out of order");
    }
}

/// scale function whose limit is, per call, either "never fuse" or "always fuse": every merge schedule is explored with two constants
#[derive(Clone, Debug)]
struct BoolScale;
impl ScaleFunction for BoolScale {
    fn delta(&self) -> f64 { 2. }
    fn f(&self, _q: f64, _n: usize) -> f64 {
        assert!(_q >= 0. && _q <= 1. + 1e-9, "C11 C15 merge hands the scale function a rank in [0,1]");
        0.
    }
    fn f_inv(&self, _k: f64, _n: usize) -> f64 { let fuse: bool = any(); if fuse { 2. } else { -1. } }
}

// three entries (one centroid, two unsorted backlog values on an integer grid, weights 1..4), every fuse schedule (bounded)
harness! {
    #[kani::unwind(5)]
    fn c16_td_merge_three_any_schedule() {
        let mut d = TDigestInner::new(BoolScale, 10);
        let (a, b) = (grid(0, 8, 1.), grid(0, 8, 1.));
        let (wa, wb) = (weight(), weight());
        d.centroids.push(Centroid { sum: 5. * 2., count: 2. });
        d.backlog.push(Centroid { sum: a * wa, count: wa });
        d.backlog.push(Centroid { sum: b * wb, count: wb });
        d.min = 0.; d.max = 8.; d.n_samples = 3;
        d.merge();
        let (c, sm, n) = totals(&d);
        assert!(d.backlog.is_empty() && n >= 1 && n <= 3, "C11 C16 merge empties the backlog and never creates centroids");
        assert!(c == 2. + wa + wb && sm == 10. + a * wa + b * wb, "C16 count() and sum() are conserved by compression, whatever is fused");
        let mut i = 0;
        while i + 1 < d.centroids.len() {
            assert!(d.centroids[i].mean() <= d.centroids[i + 1].mean(), "C15 merge leaves centroid means sorted");
            i += 1;
        }
        vcover!(n == 2, "exactly one fusion");
    }
}

// two sorted centroids and one backlog value anywhere (bounded grid), every fuse schedule
harness! {
    #[kani::unwind(5)]
    fn c16_td_merge_two_plus_one_any_schedule() {
        let mut d = TDigestInner::new(BoolScale, 10);
        let m0 = grid(0, 4, 1.);
        let m1 = m0 + grid(0, 4, 1.);
        let (w0, w1, wb) = (weight(), weight(), weight());
        let b = grid(0, 8, 1.);
        d.centroids.push(Centroid { sum: m0 * w0, count: w0 });
        d.centroids.push(Centroid { sum: m1 * w1, count: w1 });
        d.backlog.push(Centroid { sum: b * wb, count: wb });
        d.min = 0.; d.max = 8.; d.n_samples = 3;
        d.merge();
        let (c, sm, n) = totals(&d);
        assert!(d.backlog.is_empty() && n >= 1 && n <= 3, "C11 C16 merge empties the backlog and never creates centroids");
        assert!(c == w0 + w1 + wb && sm == m0 * w0 + m1 * w1 + b * wb, "C16 count() and sum() are conserved by compression, whatever is fused");
        let mut i = 0;
        while i + 1 < d.centroids.len() {
            assert!(d.centroids[i].mean() <= d.centroids[i + 1].mean(), "C15 merge leaves centroid means sorted");
            i += 1;
        }
        vcover!(b > m0 && b < m1, "backlog value between the two centroids");
    }
}
