// ---- HyperLogLog: contract harnesses -----------------------------------------------------------
use crate::verif_sym::{any, assume, harness, vcover};

#[derive(Clone, Debug, PartialEq, Eq)]
struct ConstBH(u64);
struct ConstHasher(u64);
impl std::hash::Hasher for ConstHasher {
    fn finish(&self) -> u64 { self.0 }
    fn write(&mut self, _bytes: &[u8]) {}
}
impl BuildHasher for ConstBH {
    type Hasher = ConstHasher;
    fn build_hasher(&self) -> ConstHasher { ConstHasher(self.0) }
}

/// independent 64-step reference: 1-based position of the first set bit among the upper 64-b bits,
/// 64-b+1 if there is none
fn rank_ref(h: u64, b: usize) -> u8 {
    let mut k = 1;
    while k <= 64 - b {
        if (h >> (64 - k)) & 1 == 1 { return k as u8; }
        k += 1;
    }
    (64 - b + 1) as u8
}

// b = 4: all 16 registers arbitrary, hash fully symbolic -- complete for this precision
harness! {
    #[kani::unwind(62)]
    fn c17_hll_add_hashed_b4() {
        let mut regs = vec![0u8; 16];
        let mut i = 0;
        while i < 16 { regs[i] = any(); i += 1; }
        let before = regs.clone();
        let mut h = HyperLogLog::<u64, ConstBH>::with_registers_and_hash(4, regs, ConstBH(0));
        let hv: u64 = any();
        h.add_hashed(hv);
        let j = (hv & 15) as usize;
        let p = rank_ref(hv, 4);
        let mut i = 0;
        while i < 16 {
            if i == j {
                assert!(h.registers[i] == if before[i] >= p { before[i] } else { p }, "C17 addressed register becomes max(old, rank)");
            } else {
                assert!(h.registers[i] == before[i], "C17 all other registers unchanged");
            }
            i += 1;
        }
        assert!(h.registers.len() == 16 && h.b == 4, "C17 C11 shape unchanged");
        vcover!(hv >> 4 == 0, "no bit set among the upper bits");
        vcover!(p == 1, "top bit set");
    }
}

// generic precision, two symbolic positions (the addressed register and an arbitrary probe)
fn add_hashed_case(b: usize) {
    let m = 1usize << b;
    let mut regs = vec![0u8; m];
    let hv: u64 = any();
    let j = (hv & ((m as u64) - 1)) as usize;
    let probe: usize = any();
    assume(probe < m);
    let (vj, vp): (u8, u8) = (any(), any());
    regs[probe] = vp;
    regs[j] = vj;
    let mut h = HyperLogLog::<u64, ConstBH>::with_registers_and_hash(b, regs, ConstBH(0));
    h.add_hashed(hv);
    let p = rank_ref(hv, b);
    assert!(h.registers[j] == if vj >= p { vj } else { p }, "C17 addressed register becomes max(old, rank)");
    if probe != j { assert!(h.registers[probe] == vp, "C17 all other registers unchanged"); }
    assert!(h.registers.len() == m, "C17 C11 shape unchanged");
}
harness! { #[kani::unwind(62)] fn c17_hll_add_hashed_b5() { add_hashed_case(5); } }
harness! { #[kani::unwind(62)] fn c17_hll_add_hashed_b8() { add_hashed_case(8); } }

// add(x) == add_hashed(buildhasher.hash_one(x))
harness! {
    #[kani::unwind(20)]
    fn c17_hll_add_is_add_hashed() {
        let hv: u64 = any();
        let mut a = HyperLogLog::<u64, ConstBH>::with_hash(4, ConstBH(hv));
        let mut b = a.clone();
        let x: u64 = any();
        a.add(&x);
        b.add_hashed(hv);
        assert!(a.registers == b.registers, "C17 add(x) is add_hashed(hash_one(x))");
    }
}

// merge: register-wise max, other unchanged; clear / is_empty
harness! {
    #[kani::unwind(20)]
    fn c06_hll_merge_b4() {
        let mut ra = vec![0u8; 16];
        let mut rb = vec![0u8; 16];
        let mut i = 0;
        while i < 16 { ra[i] = any(); rb[i] = any(); i += 1; }
        let (a0, b0) = (ra.clone(), rb.clone());
        let mut a = HyperLogLog::<u64, ConstBH>::with_registers_and_hash(4, ra, ConstBH(7));
        let b = HyperLogLog::<u64, ConstBH>::with_registers_and_hash(4, rb, ConstBH(7));
        a.merge(&b);
        assert!(a.registers.len() == 16 && a.b == 4, "C06 C11 merge keeps the register count");
        let mut all_zero = true;
        let mut i = 0;
        while i < 16 {
            assert!(a.registers[i] == if a0[i] >= b0[i] { a0[i] } else { b0[i] }, "C06 merge is the register-wise maximum");
            assert!(b.registers[i] == b0[i], "C06 merge leaves the other sketch unchanged");
            if a.registers[i] != 0 { all_zero = false; }
            i += 1;
        }
        assert!(a.is_empty() == all_zero, "C19 is_empty iff every register is zero");
        a.clear();
        let mut i = 0;
        while i < 16 { assert!(a.registers[i] == 0, "C19 clear zeroes every register"); i += 1; }
        assert!(a.registers.len() == 16 && a.b == 4 && a.is_empty(), "C19 C11 clear keeps the configuration");
    }
}

// count() never indexes outside the constant tables for 4 <= b <= 18 (shape of the data tables): complete
harness! {
    #[kani::unwind(17)]
    fn c20_hll_tables_cover_all_precisions() {
        assert!(THRESHOLD_DATA_VEC.len() == 15 && RAW_ESTIMATE_DATA_VEC.len() == 15 && BIAS_DATA_VEC.len() == 15, "C20 one table row per precision 4..=18");
        assert!(THRESHOLD_DATA_OFFSET == 4 && RAW_ESTIMATE_DATA_OFFSET == 4 && BIAS_DATA_OFFSET == 4, "C20 table offsets");
        let mut i = 0;
        while i < 15 {
            assert!(RAW_ESTIMATE_DATA_VEC[i].len() >= 6 && RAW_ESTIMATE_DATA_VEC[i].len() == BIAS_DATA_VEC[i].len(), "C20 bias rows match raw-estimate rows and hold at least 6 neighbours");
            i += 1;
        }
        assert!(POW2MINX.len() == 256, "C20 one power per register value");
    }
}

// (count() itself cannot be executed by Kani: bytecount's runtime-dispatched SIMD intrinsics are unsupported)

// clone(): independent copy (bounded: b = 4, arbitrary registers)
harness! {
    #[kani::unwind(20)]
    fn c19_hll_clone_independent() {
        let hv: u64 = any();
        let mut a = HyperLogLog::<u64, ConstBH>::with_hash(4, ConstBH(hv));
        let mut i = 0;
        while i < 16 { let v: u8 = any(); assume(v <= 61); a.registers[i] = v; i += 1; }
        let before = a.registers.clone();
        let mut b = a.clone();
        assert!(b.registers == before, "C19 a clone has the registers of the original");
        let which: bool = any();
        let h2: u64 = any();
        if which { a.add_hashed(h2); } else { b.add_hashed(h2); }
        assert!((if which { &b } else { &a }).registers == before, "C19 clone and original do not share state");
    }
}
