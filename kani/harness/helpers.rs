// ---- C11: all_zero_intvector allocates ceil(element_bits*len / W) blocks -------------------
use crate::verif_sym::{any, assume, harness, vcover};
use succinct::{BitVec, IntVec, IntVecMut};

// complete over (element_bits, len<=LEN_MAX) for u64 blocks: loop-free, full-domain element_bits
harness! {
    fn c11_all_zero_intvector_u64() {
        let element_bits: usize = any();
        let len: usize = any();
        assume(element_bits >= 1 && element_bits <= 64);
        assume(len <= 4);
        let v: IntVector<u64> = all_zero_intvector(element_bits, len);
        vcover!(len == 4 && element_bits == 7, "unaligned");
        vcover!(len == 3 && element_bits == 64, "block sized");
        // enough room
        assert!(v.len() >= len as u64, "C11 holds len elements");
        // number of blocks is the ceiling
        let bl = v.block_len();
        assert!(bl * 64 >= element_bits * len, "C11 blocks cover element_bits*len");
        assert!(bl * 64 < element_bits * len + 64, "C11 blocks == ceil(element_bits*len/W)");
    }
}

harness! {
    fn c11_all_zero_intvector_usize() {
        let element_bits: usize = any();
        let len: usize = any();
        assume(element_bits >= 1 && element_bits <= 64);
        assume(len <= 4);
        let v: IntVector<usize> = all_zero_intvector(element_bits, len);
        assert!(v.len() >= len as u64, "C11 holds len elements");
        let bl = v.block_len();
        assert!(bl * 64 >= element_bits * len, "C11 blocks cover element_bits*len");
        assert!(bl * 64 < element_bits * len + 64, "C11 blocks == ceil(element_bits*len/W)");
    }
}

// ---- cross-check of the Verus IntVector stub against the real succinct crate (bounded) ----
harness! {
    fn intvector_stub_set_get() {
        let element_bits: usize = any();
        assume(element_bits >= 1 && element_bits <= 64);
        let nblocks: usize = 2; // concrete: symbolic allocation sizes exhaust CBMC
        let mut v: IntVector<u64> = IntVector::block_with_fill(element_bits, nblocks, 0);
        let n = v.len();
        assert!(n == (nblocks as u64 * 64) / element_bits as u64, "stub: block_with_fill len");
        let i: u64 = any();
        let j: u64 = any();
        assume(i < n && j < n);
        let x: u64 = any();
        assume(element_bits == 64 || x < (1u64 << element_bits));
        assert!(v.get(i) == 0 && v.get(j) == 0, "stub: zero fill");
        let before_j = v.get(j);
        v.set(i, x);
        assert!(v.get(i) == x, "stub: set then get");
        if i != j {
            assert!(v.get(j) == before_j, "stub: set leaves other elements");
        }
        assert!(v.len() == n, "stub: set keeps len");
        vcover!(i != j && x != 0, "two distinct slots");
    }
}
