// ---- BloomFilter: bounded one-step harnesses (m = 7 bits, k = 2) -------------------------------
use crate::countminsketch::verif::SymBH;
use crate::verif_sym::{any, assume, harness, vcover};

type BF = BloomFilter<u8, SymBH>;
const K: usize = 2;

fn arbitrary_filter<const M: usize>(bh: &SymBH) -> (BF, [bool; M]) {
    let mut bf = BF::with_params_and_hash(M, K, bh.clone());
    assert!(bf.bs.len() == M, "C11 exactly m bits");
    let mut bits = [false; M];
    let mut i = 0;
    while i < M { let b: bool = any(); bits[i] = b; bf.bs.set(i, b); i += 1; }
    (bf, bits)
}

fn insert_query_step<const M: usize>() {
        let bh = SymBH::new();
        let (mut bf, bits) = arbitrary_filter::<M>(&bh);
        let x: u8 = any();
        let y: u8 = any();
        assume(x < 3 && y < 3);
        let (p0, p1) = (bh.pos(x, 0, M), bh.pos(x, 1, M));
        let was = bits[p0] && bits[p1];
        let qy0 = bf.query(&y);
        assert!(bf.query(&x) == was, "C01 query is true iff all k positions are set");
        let r = bf.insert(&x).unwrap();
        assert!(r == !was, "C01 insert reports whether the element was new");
        let mut i = 0;
        while i < M {
            assert!(bf.bs[i] == (bits[i] || i == p0 || i == p1), "C01 insert sets exactly the k positions of the element and clears nothing");
            i += 1;
        }
        assert!(bf.query(&x), "C01 no false negative right after insert");
        if qy0 { assert!(bf.query(&y), "C01 inserting another element never removes a member"); }
        assert!(bf.bs.len() == M, "C11 insert does not grow the bit array");
        vcover!(p0 == p1, "both hash functions collide");
}
harness! { #[kani::unwind(10)] fn c01_bloom_insert_query_step_m8() { insert_query_step::<8>(); } }
harness! { #[kani::unwind(9)] fn c01_bloom_insert_query_step_m7() { insert_query_step::<7>(); } }

harness! {
    #[kani::unwind(9)]
    fn c06_bloom_union_clear_step() {
        const M: usize = 7;
        let bh = SymBH::new();
        let (mut a, ba) = arbitrary_filter::<M>(&bh);
        let (b, bb) = arbitrary_filter::<M>(&bh);
        a.union(&b).unwrap();
        let mut any_set = false;
        let mut i = 0;
        while i < M {
            assert!(a.bs[i] == (ba[i] || bb[i]), "C06 C01 union is the bitwise or");
            assert!(b.bs[i] == bb[i], "C06 union leaves the other filter unchanged");
            if a.bs[i] { any_set = true; }
            i += 1;
        }
        assert!(a.is_empty() == !any_set, "C19 is_empty iff no bit is set");
        assert!(a.bs.len() == M, "C11 union keeps the bit array size");
        a.clear();
        let mut i = 0;
        while i < M { assert!(!a.bs[i], "C19 clear resets every bit"); i += 1; }
        assert!(a.is_empty() && a.bs.len() == M && a.k == K, "C19 C11 clear keeps the configuration");
    }
}

// clone(): a copy answers identically and neither side sees later mutation of the other (bounded: m = 7, arbitrary bits)
harness! {
    #[kani::unwind(9)]
    fn c19_bloom_clone_independent() {
        let bh = SymBH::new();
        let (mut a, bits) = arbitrary_filter::<7>(&bh);
        let mut b = a.clone();
        let x: u8 = any();
        let y: u8 = any();
        assume(x < 3 && y < 3);
        assert!(a.query(&y) == b.query(&y), "C19 a clone answers identically at the time of cloning");
        let which: bool = any();
        if which { a.insert(&x).unwrap(); } else { b.insert(&x).unwrap(); }
        let untouched = if which { &b } else { &a };
        let mut i = 0;
        while i < 7 { assert!(untouched.bs[i] == bits[i], "C19 clone and original do not share state"); i += 1; }
    }
}
