// ---- CuckooFilter: bounded one-step harnesses (2 buckets x 2 slots, 2-bit fingerprints) ----------
// Counterexample engine for the Verus contracts + discharge of the `iter().rev().cloned()` rewrite.
// insert/union are NOT exercised here: the 500-iteration eviction loop is out of CBMC's reach and
// is verified unbounded by Verus.
use crate::verif_sym::{any, assume, harness, vcover};
use std::hash::Hasher;

#[derive(Clone, Debug)]
struct CkBH { fp: [u64; 3], hb_obj: [u64; 3], hb_f: [u64; 4] }
impl PartialEq for CkBH { fn eq(&self, _o: &Self) -> bool { true } }
impl Eq for CkBH {}
struct CkHasher { bh: CkBH, iv: usize, key: u64, is_u64: bool }
impl Hasher for CkHasher {
    fn finish(&self) -> u64 {
        if self.iv == 0 { self.bh.fp[(self.key % 3) as usize] }
        else if self.is_u64 { self.bh.hb_f[(self.key % 4) as usize] }
        else { self.bh.hb_obj[(self.key % 3) as usize] }
    }
    fn write(&mut self, bytes: &[u8]) { if bytes.len() > 0 { self.key = bytes[0] as u64; } }
    fn write_u8(&mut self, v: u8) { self.key = v as u64; self.is_u64 = false; }
    fn write_u64(&mut self, v: u64) { self.key = v; self.is_u64 = true; }
    fn write_usize(&mut self, v: usize) { self.iv = v; }
}
impl BuildHasher for CkBH {
    type Hasher = CkHasher;
    fn build_hasher(&self) -> CkHasher { CkHasher { bh: self.clone(), iv: 0, key: 0, is_u64: false } }
}

/// RNG whose words are arbitrary
#[derive(Clone)]
struct SymRng;
impl rand::RngCore for SymRng {
    fn next_u32(&mut self) -> u32 { any() }
    fn next_u64(&mut self) -> u64 { any() }
    fn fill_bytes(&mut self, dest: &mut [u8]) { for b in dest.iter_mut() { *b = any(); } }
    fn try_fill_bytes(&mut self, dest: &mut [u8]) -> Result<(), rand::Error> { self.fill_bytes(dest); Ok(()) }
}

type CF = CuckooFilter<u8, SymRng, CkBH>;

fn arbitrary_filter() -> (CF, [u64; 4], CkBH) {
    let bh = CkBH { fp: [any(), any(), any()], hb_obj: [any(), any(), any()], hb_f: [any(), any(), any(), any()] };
    let mut cf = CF::with_params_and_hash(SymRng, 2, 2, 2, bh.clone());
    let mut t = [0u64; 4];
    let mut n = 0;
    let mut x = 0;
    while x < 4 {
        let v: u64 = any();
        assume(v < 4);
        t[x] = v;
        cf.table.set(x as u64, v);
        if v != 0 { n += 1; }
        x += 1;
    }
    cf.n_elements = n;
    (cf, t, bh)
}

harness! {
    #[kani::unwind(6)]
    fn c14_cuckoo_delete_query_step() {
        let (mut cf, t, bh) = arbitrary_filter();
        let obj: u8 = any();
        assume(obj < 3);
        // independent oracle
        let f = 1 + bh.fp[obj as usize] % 3;
        let i1 = (bh.hb_obj[obj as usize] & 1) as usize;
        let i2 = i1 ^ ((bh.hb_f[f as usize] & 1) as usize);
        let mut copies = 0;
        let mut x = 0;
        while x < 4 {
            let bucket = x / 2;
            if t[x] == f && (bucket == i1 || bucket == i2) { copies += 1; }
            x += 1;
        }
        let n0 = cf.n_elements;
        assert!(cf.query(&obj) == (copies >= 1), "C14 C01 query is true iff a copy of the class is stored");
        let r = cf.delete(&obj);
        assert!(r == (copies >= 1), "C14 delete returns true iff a copy of the class is stored");
        let mut changed = 0;
        let mut x = 0;
        while x < 4 {
            let now = cf.table.get(x as u64);
            if now != t[x] {
                changed += 1;
                let bucket = x / 2;
                assert!(t[x] == f && now == 0 && (bucket == i1 || bucket == i2), "C14 C01 delete clears one slot holding the class, nothing else");
            }
            x += 1;
        }
        if r {
            assert!(changed == 1 && cf.n_elements == n0 - 1, "C14 C01 delete removes exactly one copy and decrements len");
        } else {
            assert!(changed == 0 && cf.n_elements == n0, "C14 failed delete changes nothing");
        }
        vcover!(copies == 2, "two copies stored");
        vcover!(i1 != i2 && copies == 1, "copy in one of two distinct buckets");
    }
}

// restore_state replays the log from its LAST entry to its first (discharges the Verus rewrite of
// `for (pos, data) in log.iter().rev().cloned()` into an index loop), log length <= 3
harness! {
    #[kani::unwind(6)]
    fn c12_cuckoo_restore_state_reverse_order() {
        let (mut cf, t, _bh) = arbitrary_filter();
        let len: usize = any();
        assume(len <= 3);
        let mut log: Vec<(usize, u64)> = Vec::new();
        let mut exp = t;
        let mut ents = [(0usize, 0u64); 3];
        let mut k = 0;
        while k < len {
            let p: usize = any();
            let v: u64 = any();
            assume(p < 4 && v < 4);
            ents[k] = (p, v);
            log.push((p, v));
            k += 1;
        }
        // oracle: last entry first
        let mut k = len;
        while k > 0 { k -= 1; exp[ents[k].0] = ents[k].1; }
        let n0 = cf.n_elements;
        cf.restore_state(&log);
        let mut x = 0;
        while x < 4 { assert!(cf.table.get(x as u64) == exp[x], "C01 C12 C14 restore_state applies the undo log in reverse order"); x += 1; }
        assert!(cf.n_elements == n0, "C12 C14 restore_state does not touch the counter");
        vcover!(len == 3 && ents[0].0 == ents[2].0 && ents[0].1 != ents[2].1, "same slot logged twice");
    }
}

// clear() == fresh
harness! {
    #[kani::unwind(70)]
    fn c19_cuckoo_clear_is_fresh() {
        let (mut cf, _t, bh) = arbitrary_filter();
        let len0 = succinct::IntVec::len(&cf.table);
        cf.clear();
        let fresh = CF::with_params_and_hash(SymRng, 2, 2, 2, bh);
        assert!(cf.n_elements == 0 && cf.is_empty() && cf.len() == 0, "C19 clear resets the element counter");
        assert!(succinct::IntVec::len(&cf.table) == len0 && len0 == succinct::IntVec::len(&fresh.table), "C19 C11 clear keeps the table size");
        let mut x = 0;
        while x < 4 { assert!(cf.table.get(x as u64) == 0, "C19 clear frees every slot"); x += 1; }
    }
}

// clone independence: clearing either side leaves the other side's table and counter as they were
harness! {
    #[kani::unwind(70)]
    fn c19_cuckoo_clone_independent() {
        let (mut cf, t, _bh) = arbitrary_filter();
        let n0 = cf.n_elements;
        let mut c = cf.clone();
        let side: bool = any();
        if side { c.clear(); } else { cf.clear(); }
        let (kept, cleared) = if side { (&cf, &c) } else { (&c, &cf) };
        let mut x = 0;
        while x < 4 {
            assert!(kept.table.get(x as u64) == t[x], "C19 a clone shares no table storage with its original");
            assert!(cleared.table.get(x as u64) == 0, "C19 clear frees every slot");
            x += 1;
        }
        assert!(kept.n_elements == n0 && kept.len() == n0 && cleared.is_empty(), "C19 a clone has its own element counter");
        vcover!(n0 == 4 && side, "full table, clone cleared");
        vcover!(n0 == 4 && !side, "full table, original cleared");
    }
}

// (a union harness -- arbitrary 2x2 `other` with at most two fingerprints into an empty filter, so that no eviction is ever
// needed -- was tried: CBMC exhausts 20 GB after 20 min, the unreachable 500-kick loop is still unwound for every transferred
// slot.  Cuckoo union is decided by the Verus unit only; a change that restructures its loop is reported undecided.)
