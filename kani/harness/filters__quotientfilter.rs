// ---- QuotientFilter: one-step contract harnesses from an ARBITRARY canonical state ------------
// State = enc(S) for a fully symbolic set S of fingerprints (q, r); the encoder below is written
// independently of the implementation (classic quotient-filter layout: runs in quotient order,
// remainders ascending inside a run, clusters shifted right around the ring).
use crate::verif_sym::{any, assume, harness, vcover};

/// Identity-like BuildHasher: finish() returns the last u64 written (harness passes fingerprints directly)
#[derive(Clone, Debug, PartialEq, Eq)]
struct IdBH;
struct IdHasher(u64);
impl std::hash::Hasher for IdHasher {
    fn finish(&self) -> u64 { self.0 }
    fn write(&mut self, bytes: &[u8]) {
        let mut a = [0u8; 8];
        let n = if bytes.len() < 8 { bytes.len() } else { 8 };
        let mut i = 0;
        while i < n { a[i] = bytes[i]; i += 1; }
        self.0 = u64::from_le_bytes(a);
    }
    fn write_u64(&mut self, v: u64) { self.0 = v; }
}
impl BuildHasher for IdBH {
    type Hasher = IdHasher;
    fn build_hasher(&self) -> IdHasher { IdHasher(0) }
}

type QF = QuotientFilter<u64, IdBH>;

/// Plain-array picture of the four state arrays (N slots)
#[derive(Clone, Copy, PartialEq, Eq, Debug)]
struct Layout<const N: usize> {
    occ: [bool; N],
    cont: [bool; N],
    shift: [bool; N],
    used: [bool; N],
    rem: [usize; N],
    count: usize,
}

/// canonical layout of the set given as bitmap over fingerprints f = q * R + r  (R = 2^br)
fn enc<const N: usize, const R: usize>(mask: u32) -> Layout<N> {
    let mut l = Layout::<N> { occ: [false; N], cont: [false; N], shift: [false; N], used: [false; N], rem: [0; N], count: 0 };
    let mut cnt = [0usize; N];
    let mut q = 0;
    while q < N {
        let mut r = 0;
        while r < R {
            if (mask >> (q * R + r)) & 1 == 1 { cnt[q] += 1; l.count += 1; }
            r += 1;
        }
        l.occ[q] = cnt[q] > 0;
        q += 1;
    }
    if l.count == 0 || l.count > N { return l; }
    // overflow into slot q from earlier quotients: o(q+1) = max(o(q) + cnt(q) - 1, 0), fixed point around the ring
    let mut o = [0usize; N];
    let mut step = 0;
    while step < 2 * N {
        let q = step % N;
        let nxt = (q + 1) % N;
        let v = o[q] + cnt[q];
        o[nxt] = if v > 0 { v - 1 } else { 0 };
        step += 1;
    }
    // placement
    let mut q = 0;
    while q < N {
        if cnt[q] > 0 {
            let mut j = 0;
            let mut r = 0;
            while r < R {
                if (mask >> (q * R + r)) & 1 == 1 {
                    let s = (q + o[q] + j) % N;
                    l.used[s] = true;
                    l.rem[s] = r;
                    l.cont[s] = j > 0;
                    l.shift[s] = s != q;
                    j += 1;
                }
                r += 1;
            }
        }
        q += 1;
    }
    l
}

fn build<const N: usize>(bq: usize, br: usize, l: &Layout<N>) -> QF {
    let mut qf = QF::with_params_and_hash(bq, br, IdBH);
    let mut s = 0;
    while s < N {
        qf.is_occupied.set(s, l.occ[s]);
        qf.is_continuation.set(s, l.cont[s]);
        qf.is_shifted.set(s, l.shift[s]);
        qf.remainders.set(s as u64, l.rem[s]);
        s += 1;
    }
    qf.n_elements = l.count;
    qf
}

fn same<const N: usize>(qf: &QF, l: &Layout<N>) -> bool {
    let mut ok = qf.n_elements == l.count;
    let mut s = 0;
    while s < N {
        ok = ok && qf.is_occupied[s] == l.occ[s] && qf.is_continuation[s] == l.cont[s] && qf.is_shifted[s] == l.shift[s];
        // remainders are compared on used slots (unused slots may keep stale remainders)
        if l.used[s] { ok = ok && qf.remainders.get(s as u64) == l.rem[s]; }
        ok = ok && ((qf.is_occupied[s] || qf.is_shifted[s] || qf.is_continuation[s]) || !l.used[s]);
        s += 1;
    }
    ok
}

fn popcount(mask: u32) -> usize { mask.count_ones() as usize }

/// insert_internal(q, r) from enc(S), for every S: membership answer, result value, resulting state
fn step_insert<const N: usize, const R: usize>(bq: usize, br: usize, f: usize) {
    let mask: u32 = any();
    assume(mask < (1u32 << (N * R)));
    assume(popcount(mask) <= N);
    let l0 = enc::<N, R>(mask);
    let mut qf = build::<N>(bq, br, &l0);
    let (q, r) = (f / R, f % R);
    let present = (mask >> f) & 1 == 1;
    // query agrees with the abstract set (C13 / C01)
    let got = qf.scan(q, r, false).present;
    assert!(got == present, "C13 C01 query reports exactly the inserted fingerprint classes");
    let res = qf.insert_internal(q, r);
    vcover!(res.is_err(), "full table reached");
    vcover!(matches!(res, Ok(true)) && popcount(mask) == N - 1, "insert filling the last slot");
    vcover!(matches!(res, Ok(false)), "known class");
    if present {
        assert!(matches!(res, Ok(false)), "C13 insert of a known class returns Ok(false)");
        assert!(same::<N>(&qf, &l0), "C13 insert of a known class leaves the state");
    } else if popcount(mask) == N {
        assert!(res.is_err(), "C13 new class at capacity returns Err(Full)");
        assert!(same::<N>(&qf, &l0), "C12 failed insert leaves the filter unchanged");
    } else {
        assert!(matches!(res, Ok(true)), "C13 insert of a new class returns Ok(true)");
        let l1 = enc::<N, R>(mask | (1u32 << f));
        assert!(same::<N>(&qf, &l1), "C13 C01 state after insert is the canonical layout of S plus (q,r)");
        assert!(qf.n_elements == popcount(mask) + 1, "C13 len equals number of distinct classes");
    }
}

macro_rules! qf_insert_harness {
    ($name:ident, $n:expr, $r:expr, $bq:expr, $br:expr, $f:expr, $unw:expr) => {
        harness! {
            #[kani::unwind($unw)]
            fn $name() { step_insert::<$n, $r>($bq, $br, $f); }
        }
    };
}
// bq = 2 (4 slots), br = 1: all 8 fingerprints, all 256 sets (163 with |S| <= 4)
qf_insert_harness!(c13_qf_insert_b2r1_f0, 4, 2, 2, 1, 0, 10);
qf_insert_harness!(c13_qf_insert_b2r1_f1, 4, 2, 2, 1, 1, 10);
qf_insert_harness!(c13_qf_insert_b2r1_f2, 4, 2, 2, 1, 2, 10);
qf_insert_harness!(c13_qf_insert_b2r1_f3, 4, 2, 2, 1, 3, 10);
qf_insert_harness!(c13_qf_insert_b2r1_f4, 4, 2, 2, 1, 4, 10);
qf_insert_harness!(c13_qf_insert_b2r1_f5, 4, 2, 2, 1, 5, 10);
qf_insert_harness!(c13_qf_insert_b2r1_f6, 4, 2, 2, 1, 6, 10);
qf_insert_harness!(c13_qf_insert_b2r1_f7, 4, 2, 2, 1, 7, 10);
// bq = 1 (2 slots), br = 1: all 4 fingerprints, all 16 sets
qf_insert_harness!(c13_qf_insert_b1r1_f0, 2, 2, 1, 1, 0, 6);
qf_insert_harness!(c13_qf_insert_b1r1_f1, 2, 2, 1, 1, 1, 6);
qf_insert_harness!(c13_qf_insert_b1r1_f2, 2, 2, 1, 1, 2, 6);
qf_insert_harness!(c13_qf_insert_b1r1_f3, 2, 2, 1, 1, 3, 6);
// bq = 1 (2 slots), br = 2
qf_insert_harness!(c13_qf_insert_b1r2_f0, 2, 4, 1, 2, 0, 6);
qf_insert_harness!(c13_qf_insert_b1r2_f3, 2, 4, 1, 2, 3, 6);
qf_insert_harness!(c13_qf_insert_b1r2_f5, 2, 4, 1, 2, 5, 6);
qf_insert_harness!(c13_qf_insert_b1r2_f6, 2, 4, 1, 2, 6, 6);

// (8-slot tables: even single concrete states with a symbolic fingerprint exhaust a 25 min CBMC budget -- not pursued)

// new() == enc(empty)
harness! {
    #[kani::unwind(10)]
    fn c13_qf_new_is_empty_layout() {
        let qf = QF::with_params_and_hash(2, 1, IdBH);
        let l = enc::<4, 2>(0);
        assert!(same::<4>(&qf, &l), "C13 fresh filter is the layout of the empty set");
        assert!(qf.is_empty() && qf.len() == 0, "C13 fresh filter is empty");
    }
}

// calc_quotient_remainder keeps exactly the low bq+br bits of the hash, split at br: complete (loop-free, all 64-bit hashes)
fn qr_case(bq: usize, br: usize) {
    let qf = QF::with_params_and_hash(bq, br, IdBH);
    let h: u64 = any();
    let (q, r) = qf.calc_quotient_remainder(&h);
    let bits = bq + br;
    let low = if bits == 64 { h } else { h & ((1u64 << bits) - 1) };
    assert!(q as u64 == low >> br, "C13 quotient is the upper part of the low bq+br hash bits");
    assert!(r as u64 == low & ((1u64 << br) - 1), "C13 remainder is the low br hash bits");
    assert!(q < (1usize << bq), "C13 quotient in range");
}
harness! { fn c13_qf_quotient_remainder_b2r1() { qr_case(2, 1); } }
harness! { fn c13_qf_quotient_remainder_b3r5() { qr_case(3, 5); } }
harness! { fn c13_qf_quotient_remainder_b1r63() { qr_case(1, 63); } }
harness! { fn c13_qf_quotient_remainder_b4r60() { qr_case(4, 60); } }

// ---- union: Ok => enc(A ∪ B); Err <=> |A ∪ B| > N, state restored; other operand untouched ----
fn step_union<const N: usize, const R: usize>(bq: usize, br: usize, fixed_a: Option<u32>) {
    step_union_ab::<N, R>(bq, br, fixed_a, None)
}

fn step_union_ab<const N: usize, const R: usize>(bq: usize, br: usize, fixed_a: Option<u32>, fixed_b: Option<u32>) {
    // partitioned over the receiving set A (concrete per harness) to keep each CBMC run small
    let ma: u32 = match fixed_a { Some(m) => m, None => any() };
    let mb: u32 = match fixed_b { Some(m) => m, None => any() };
    assume(ma < (1u32 << (N * R)) && mb < (1u32 << (N * R)));
    assume(popcount(ma) <= N && popcount(mb) <= N);
    let la = enc::<N, R>(ma);
    let lb = enc::<N, R>(mb);
    let mut a = build::<N>(bq, br, &la);
    let b = build::<N>(bq, br, &lb);
    let res = a.union(&b);
    vcover!(res.is_err() || popcount(ma) == 0, "union overflows (impossible only for an empty receiver)");
    vcover!(res.is_ok() && popcount(ma | mb) == N, "union fills the table exactly");
    assert!(same::<N>(&b, &lb), "C06 C12 other operand of union is not modified");
    if popcount(ma | mb) > N {
        assert!(res.is_err(), "C06 union reports Full iff the union does not fit");
        assert!(same::<N>(&a, &la), "C12 failed union leaves the filter unchanged");
    } else {
        assert!(res.is_ok(), "C06 union succeeds when the union fits");
        let lu = enc::<N, R>(ma | mb);
        assert!(same::<N>(&a, &lu), "C06 C01 C13 union equals the canonical layout of A u B");
    }
}
macro_rules! qf_union_harness {
    ($name:ident, $n:expr, $r:expr, $bq:expr, $br:expr, $a:expr, $unw:expr) => {
        harness! { #[kani::unwind($unw)] fn $name() { step_union::<$n, $r>($bq, $br, $a); } }
    };
}
// 2 slots, 1-bit remainders: all 11 receiving sets with |A| <= 2, every B
qf_union_harness!(c06_qf_union_b1r1_a0, 2, 2, 1, 1, Some(0), 6);
qf_union_harness!(c06_qf_union_b1r1_a1, 2, 2, 1, 1, Some(1), 6);
qf_union_harness!(c06_qf_union_b1r1_a2, 2, 2, 1, 1, Some(2), 6);
qf_union_harness!(c06_qf_union_b1r1_a3, 2, 2, 1, 1, Some(3), 6);
qf_union_harness!(c06_qf_union_b1r1_a4, 2, 2, 1, 1, Some(4), 6);
qf_union_harness!(c06_qf_union_b1r1_a5, 2, 2, 1, 1, Some(5), 6);
qf_union_harness!(c06_qf_union_b1r1_a6, 2, 2, 1, 1, Some(6), 6);
qf_union_harness!(c06_qf_union_b1r1_a8, 2, 2, 1, 1, Some(8), 6);
qf_union_harness!(c06_qf_union_b1r1_a9, 2, 2, 1, 1, Some(9), 6);
qf_union_harness!(c06_qf_union_b1r1_a10, 2, 2, 1, 1, Some(10), 6);
qf_union_harness!(c06_qf_union_b1r1_a12, 2, 2, 1, 1, Some(12), 6);
// 4 slots: `other` is the full table {(0,0),(0,1),(1,1),(2,0)} -- one cluster in which TWO run quotients are pending at
// once while it is walked -- received by every subset of it (the only receivers for which the union fits)
harness! {
    #[kani::unwind(12)]
    fn c06_qf_union_b2r1_two_pending_runs() {
        let ma: u32 = any();
        assume(ma & !0b11011 == 0);
        step_union_ab::<4, 2>(2, 1, Some(ma), Some(0b11011));
    }
}
// the same `other`, received by the EMPTY filter (one concrete pair: cheap enough for the quick tier)
harness! {
    #[kani::unwind(12)]
    fn c06_qf_union_b2r1_two_pending_runs_into_empty() {
        step_union_ab::<4, 2>(2, 1, Some(0), Some(0b11011)); // {(0,0),(0,1),(1,1),(2,0)}: the two pending runs carry different remainders
    }
}
// larger configurations (thorough): receiving set symbolic
qf_union_harness!(c06_qf_union_b1r2, 2, 4, 1, 2, None, 6);
qf_union_harness!(c06_qf_union_b2r1, 4, 2, 2, 1, None, 12);

// clear() == fresh, from ARBITRARY array contents (16-bit remainders: one block holds the 4 slots)
harness! {
    #[kani::unwind(8)]
    fn c19_qf_clear_is_fresh() {
        let mut qf = QF::with_params_and_hash(2, 16, IdBH);
        let len0 = qf.remainders.len();
        let mut s = 0;
        while s < 4 {
            qf.is_occupied.set(s, any());
            qf.is_continuation.set(s, any());
            qf.is_shifted.set(s, any());
            let r: u16 = any();
            qf.remainders.set(s as u64, r as usize);
            s += 1;
        }
        qf.n_elements = any();
        qf.clear();
        let fresh = QF::with_params_and_hash(2, 16, IdBH);
        let mut s = 0;
        let mut ok = qf.n_elements == 0 && qf.is_empty() && qf.len() == 0;
        while s < 4 {
            ok = ok && qf.is_occupied[s] == fresh.is_occupied[s] && qf.is_continuation[s] == fresh.is_continuation[s]
                && qf.is_shifted[s] == fresh.is_shifted[s] && qf.remainders.get(s as u64) == fresh.remainders.get(s as u64);
            s += 1;
        }
        assert!(ok, "C19 clear() restores every array and the counter of a fresh filter");
        assert!(qf.remainders.len() == len0 && qf.is_occupied.len() == 4, "C19 C11 clear keeps the table size");
    }
}

// C11: table sizes of a fresh filter
harness! {
    fn c11_qf_table_sizes() {
        let qf = QF::with_params_and_hash(3, 5, IdBH);
        assert!(qf.is_occupied.len() == 8 && qf.is_continuation.len() == 8 && qf.is_shifted.len() == 8, "C11 three bit arrays of 2^bq bits");
        assert!(qf.remainders.len() >= 8 && succinct::BitVec::block_len(&qf.remainders) == 1, "C11 remainders: ceil(2^bq * br / 64) blocks");
    }
}

// clone(): independent copy (bounded: 2 slots, every canonical state)
harness! {
    #[kani::unwind(8)]
    fn c19_qf_clone_independent() {
        let mask: u32 = any();
        assume(mask < 16 && popcount(mask) <= 2);
        let l0 = enc::<2, 2>(mask);
        let mut a = build::<2>(1, 1, &l0);
        let mut b = a.clone();
        let f: usize = any();
        assume(f < 4);
        assert!(same::<2>(&b, &l0), "C19 a clone has the state of the original");
        let which: bool = any();
        if which { let _ = a.insert_internal(f / 2, f % 2); } else { let _ = b.insert_internal(f / 2, f % 2); }
        assert!(same::<2>(if which { &b } else { &a }, &l0), "C19 clone and original do not share state");
    }
}
