// Symbolic-value shim: kani::any()/assume/cover under `cfg(kani)`; a byte-queue reader under
// `cfg(verif_replay)` so the *same* harness body runs natively on the values Kani printed.
#![allow(dead_code, unreachable_pub, missing_docs, missing_debug_implementations)]

#[cfg(not(kani))]
use std::cell::RefCell;

#[cfg(not(kani))]
thread_local! {
    static QUEUE: RefCell<std::collections::VecDeque<Vec<u8>>> = RefCell::new(Default::default());
}

/// Load the value queue from $VERIF_VALUES: `;`-separated entries of `,`-separated bytes.
#[cfg(not(kani))]
pub(crate) fn load() {
    let s = std::env::var("VERIF_VALUES").unwrap_or_default();
    QUEUE.with(|q| {
        let mut q = q.borrow_mut();
        q.clear();
        for ent in s.split(';') {
            if ent.trim().is_empty() {
                continue;
            }
            q.push_back(ent.split(',').filter(|b| !b.trim().is_empty()).map(|b| b.trim().parse::<u8>().unwrap()).collect());
        }
    });
}

#[cfg(not(kani))]
fn pop(n: usize) -> Vec<u8> {
    QUEUE.with(|q| {
        let mut v = q.borrow_mut().pop_front().unwrap_or_else(|| vec![0; n]);
        v.resize(n, 0);
        v
    })
}

pub(crate) trait SymVal: Sized {
    fn sym() -> Self;
}

macro_rules! sym_int {
    ($($t:ty),*) => {$(
        impl SymVal for $t {
            #[cfg(kani)]
            fn sym() -> Self { kani::any() }
            #[cfg(not(kani))]
            fn sym() -> Self {
                let b = pop(std::mem::size_of::<$t>());
                let mut a = [0u8; std::mem::size_of::<$t>()];
                a.copy_from_slice(&b);
                <$t>::from_le_bytes(a)
            }
        }
    )*};
}
sym_int!(u8, u16, u32, u64, usize, i8, i16, i32, i64, isize, f64, f32);

impl SymVal for bool {
    #[cfg(kani)]
    fn sym() -> Self { kani::any() }
    #[cfg(not(kani))]
    fn sym() -> Self { pop(1)[0] != 0 }
}

pub(crate) fn any<T: SymVal>() -> T {
    T::sym()
}

#[cfg(kani)]
pub(crate) fn assume(c: bool) {
    kani::assume(c)
}
#[cfg(not(kani))]
pub(crate) fn assume(c: bool) {
    if !c {
        // the replayed values do not satisfy the harness precondition: not a reproduction
        eprintln!("VERIF_ASSUME_FAILED");
        std::process::exit(77);
    }
}

#[cfg(kani)]
macro_rules! vcover {
    ($c:expr, $m:literal) => { kani::cover!($c, $m) };
    ($m:literal) => { kani::cover!(true, $m) };
}
#[cfg(not(kani))]
macro_rules! vcover {
    ($c:expr, $m:literal) => { let _ = $c; };
    ($m:literal) => {};
}
pub(crate) use vcover;

/// `harness!{ #[kani::unwind(3)] fn name() { .. } }` = kani proof harness + native replay test.
macro_rules! harness {
    ($(#[$m:meta])* fn $name:ident() $body:block) => {
        #[cfg(kani)]
        #[kani::proof]
        $(#[$m])*
        fn $name() $body

        #[cfg(not(kani))]
        #[test]
        fn $name() {
            crate::verif_sym::load();
            $body
        }
    };
}
pub(crate) use harness;
