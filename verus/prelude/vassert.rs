// R8: panicking parameter checks `assert!(c, "..")` are rewritten to `vassert(c);` -- the function's documented
// parameter range (its `requires`) must IMPLY every check, so a check that starts rejecting valid input fails here.
// (A check that becomes too permissive is NOT detected by this.)
pub fn vassert(c: bool)
    requires c,
{}
