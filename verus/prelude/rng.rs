// TRUSTED: rand::Rng as an arbitrary-value source: gen::<bool>() returns any bool,
// gen_range(a..b) returns any value in [a, b) (panics on an empty range: precondition).
pub trait Rng {
    fn gen<X: RngValue>(&mut self) -> (r: X);
    fn gen_range(&mut self, range: core::ops::Range<usize>) -> (r: usize)
        requires range.start < range.end,
        ensures range.start <= r < range.end;
}
pub trait RngValue: Sized {}
impl RngValue for bool {}
