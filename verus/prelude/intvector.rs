// TRUSTED: contract-only stub of succinct::IntVector (same method names/signatures as the
// methods pdatastructs calls).  Cross-checked against the real crate by Kani harnesses
// (kani/harness/helpers.rs: intvector_stub_*), bounded.
pub trait BlockType: Sized {
    spec fn val(self) -> nat;
}
impl BlockType for u64 {
    open spec fn val(self) -> nat { self as nat }
}
impl BlockType for usize {
    open spec fn val(self) -> nat { self as nat }
}

#[verifier::external_body]
#[verifier::reject_recursive_types(T)]
pub struct IntVector<T = usize> { _p: core::marker::PhantomData<T> }

pub open spec fn blk_bits<T>() -> int { 8 * (size_of::<T>() as int) }
// value fits into `bits` bits (succinct's check_value: v <= low_mask(bits))
pub open spec fn fits_bits(v: nat, bits: nat) -> bool { bits >= 64 || v < (1u64 << (bits as u64)) as nat }

impl<T: BlockType> IntVector<T> {
    pub uninterp spec fn view(&self) -> Seq<T>;
    pub uninterp spec fn element_bits_spec(&self) -> nat;
    pub uninterp spec fn block_len_spec(&self) -> nat;

    // succinct: "The length of the new vector will be the number of elements of size
    // element_bits that fit in block_len blocks."; panics if element_bits == 0 or > block bits.
    #[verifier::external_body]
    pub fn block_with_fill(element_bits: usize, block_len: usize, value: T) -> (r: Self)
        requires 1 <= element_bits <= blk_bits::<T>(),
        ensures r.element_bits_spec() == element_bits, r.block_len_spec() == block_len,
            r@.len() == (block_len * blk_bits::<T>()) / (element_bits as int), r@.len() <= u64::MAX,
            value.val() == 0 ==> forall|i: int| 0 <= i < r@.len() ==> (#[trigger] r@[i]).val() == 0,
    { unimplemented!() }

    #[verifier::external_body]
    pub fn with_fill(element_bits: usize, len: u64, value: T) -> (r: Self)
        requires 1 <= element_bits <= blk_bits::<T>(), fits_bits(value.val(), element_bits as nat),
        ensures r.element_bits_spec() == element_bits,
            r@.len() == len,
            forall|i: int| 0 <= i < r@.len() ==> #[trigger] r@[i] == value,
    { unimplemented!() }

    #[verifier::external_body]
    pub fn clone(&self) -> (r: Self)
        ensures r@ == self@, r.element_bits_spec() == self.element_bits_spec(), r.block_len_spec() == self.block_len_spec(),
    { unimplemented!() }

    #[verifier::external_body]
    pub fn len(&self) -> (r: u64)
        ensures r == self@.len(),
    { unimplemented!() }

    #[verifier::external_body]
    pub fn element_bits(&self) -> (r: usize)
        ensures r == self.element_bits_spec(), 1 <= r <= blk_bits::<T>(),
    { unimplemented!() }

    #[verifier::external_body]
    pub fn get(&self, element_index: u64) -> (r: T)
        requires element_index < self@.len(),
        ensures r == self@[element_index as int],
    { unimplemented!() }

    // panics when the value does not fit into element_bits (check_value) or index out of bounds
    #[verifier::external_body]
    pub fn set(&mut self, element_index: u64, element_value: T)
        requires element_index < old(self)@.len(),
            fits_bits(element_value.val(), old(self).element_bits_spec()),
        ensures final(self)@ == old(self)@.update(element_index as int, element_value),
            final(self).element_bits_spec() == old(self).element_bits_spec(),
            final(self).block_len_spec() == old(self).block_len_spec(),
    { unimplemented!() }
}
