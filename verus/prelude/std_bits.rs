// TRUSTED: usize bit-counting functions on a 64-bit target, expressed through vstd's u64 specifications
pub assume_specification [usize::trailing_zeros] (i: usize) -> (r: u32)
    ensures r == vstd::std_specs::bits::u64_trailing_zeros(i as u64);
pub assume_specification [usize::leading_zeros] (i: usize) -> (r: u32)
    ensures r == vstd::std_specs::bits::u64_leading_zeros(i as u64);
pub assume_specification [usize::count_ones] (i: usize) -> (r: u32)
    ensures r <= 64;
pub assume_specification [usize::is_power_of_two] (i: usize) -> (r: bool)
    ensures r == (i > 0 && (i as u64) & sub(i as u64, 1) == 0);
