// R13 prelude: real-arithmetic reading of f64 expressions captured from the source (//@capture_f64).
// TRUSTED: the rounding functions are uninterpreted and characterised by the axioms below (the definitions of
// ceil / floor / round on the reals; integers are their fixed points); f64 rounding error, NaN and infinities are not modelled.
pub uninterp spec fn rceil(x: real) -> int;
pub uninterp spec fn rfloor(x: real) -> int;
pub uninterp spec fn rround(x: real) -> int;
#[verifier::external_body]
pub proof fn ax_rceil(x: real) ensures (rceil(x) as real) >= x, ((rceil(x) - 1) as real) < x { }
#[verifier::external_body]
pub proof fn ax_rfloor(x: real) ensures (rfloor(x) as real) <= x, ((rfloor(x) + 1) as real) > x { }
#[verifier::external_body]
pub proof fn ax_rround(x: real) ensures (rround(x) as real) <= x + 0.5real, (rround(x) as real) >= x - 0.5real { }
#[verifier::external_body]
pub proof fn ax_int_fix(k: int) ensures rfloor(k as real) == k, rceil(k as real) == k, rround(k as real) == k { }
#[verifier::opaque]
pub open spec fn rmul(a: real, b: real) -> real { a * b }
pub open spec fn rmax(a: real, b: real) -> real { if a >= b { a } else { b } }
pub open spec fn rmin(a: real, b: real) -> real { if a <= b { a } else { b } }
// `x as usize` on a float: truncation towards zero, saturating at the ends
pub open spec fn r2usize(x: real) -> int {
    if x <= 0real { 0 } else if rfloor(x) > usize::MAX { usize::MAX as int } else { rfloor(x) }
}
