// TRUSTED: allocation-size preconditions of std functions the pinned tree does not call (vstd has no specification for them)
// Vec::reserve_exact(additional): "Panics if the new capacity exceeds isize::MAX bytes".  The pinned tree never calls it; a change
// that pre-allocates configuration-sized buffers is thereby checked against "never panics for every k" (seed C18-6).
pub assume_specification<T, A: std::alloc::Allocator> [Vec::<T, A>::reserve_exact] (v: &mut Vec<T, A>, additional: usize)
    requires (old(v)@.len() + additional) * core::mem::size_of::<T>() <= isize::MAX,
    ensures final(v)@ == old(v)@;
