// TRUSTED: contract-only stub of fixedbitset::FixedBitSet (methods pdatastructs calls).
// Cross-checked against the real crate by bounded Kani harnesses (kani/harness/filters__bloomfilter.rs: fbs_stub_*).
#[verifier::external_body]
pub struct FixedBitSet { _p: core::marker::PhantomData<u8> }

#[verifier::external_body]
pub struct Ones { _p: core::marker::PhantomData<u8> }

impl Ones {
    pub uninterp spec fn first(&self) -> Option<usize>;
    #[verifier::external_body]
    pub fn next(&mut self) -> (r: Option<usize>)
        ensures r == old(self).first(),
    { unimplemented!() }
}

impl FixedBitSet {
    pub uninterp spec fn view(&self) -> Seq<bool>;

    #[verifier::external_body]
    pub fn with_capacity(bits: usize) -> (r: Self)
        ensures r@.len() == bits, forall|i: int| 0 <= i < bits ==> !#[trigger] r@[i],
    { unimplemented!() }

    #[verifier::external_body]
    pub fn len(&self) -> (r: usize)
        ensures r == self@.len(),
    { unimplemented!() }

    // panics if bit >= len
    #[verifier::external_body]
    pub fn put(&mut self, bit: usize) -> (r: bool)
        requires bit < old(self)@.len(),
        ensures r == old(self)@[bit as int], final(self)@ == old(self)@.update(bit as int, true),
    { unimplemented!() }

    #[verifier::external_body]
    pub fn set(&mut self, bit: usize, enabled: bool)
        requires bit < old(self)@.len(),
        ensures final(self)@ == old(self)@.update(bit as int, enabled),
    { unimplemented!() }

    // std::ops::Index<usize>.  fixedbitset 0.5 returns `false` for bit >= len instead of panicking; the stub is
    // deliberately STRICTER (an out-of-range read is reported), because every such read in pdatastructs is a bug
    #[verifier::external_body]
    pub fn index(&self, bit: usize) -> (r: &bool)
        requires bit < self@.len(),
        ensures *r == self@[bit as int],
    { unimplemented!() }

    #[verifier::external_body]
    pub fn clear(&mut self)
        ensures final(self)@.len() == old(self)@.len(), forall|i: int| 0 <= i < final(self)@.len() ==> !#[trigger] final(self)@[i],
    { unimplemented!() }

    #[verifier::external_body]
    pub fn clone(&self) -> (r: Self)
        ensures r@ == self@,
    { unimplemented!() }

    // iterator over set bits; only its first element is used (is_empty)
    #[verifier::external_body]
    pub fn ones(&self) -> (r: Ones)
        ensures (r.first() is None) == (forall|i: int| 0 <= i < self@.len() ==> !#[trigger] self@[i]),
    { unimplemented!() }

    // `&a | &b`: bitwise or; result length is the maximum of the two
    #[verifier::external_body]
    pub fn bitor(a: &Self, b: &Self) -> (r: Self)
        ensures r@.len() == (if a@.len() >= b@.len() { a@.len() } else { b@.len() }),
            forall|i: int| 0 <= i < r@.len() ==> #[trigger] r@[i] == ((i < a@.len() && a@[i]) || (i < b@.len() && b@[i])),
    { unimplemented!() }
}
