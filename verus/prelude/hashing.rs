// TRUSTED: contract-only model of std::hash.  A hasher's result is ONE uninterpreted function of
// (identity of the BuildHasher that created it, sequence of words written).  This is exactly the
// crate's documented requirement that the BuildHasher be stable; nothing else is assumed, so every
// theorem holds for every hash function including collision-forcing ones.
pub uninterp spec fn hash_fn(bid: int, w: Seq<int>) -> u64;

pub trait Hasher {
    spec fn written(&self) -> Seq<int>;
    spec fn bid(&self) -> int;
    fn write_usize(&mut self, i: usize)
        ensures final(self).written() == old(self).written().push(i as int), final(self).bid() == old(self).bid();
    fn finish(&self) -> (r: u64)
        ensures r == hash_fn(self.bid(), self.written());
}

pub trait BuildHasher {
    type Hasher: Hasher;
    spec fn id(&self) -> int;
    fn build_hasher(&self) -> (r: Self::Hasher)
        ensures r.written() == Seq::<int>::empty(), r.bid() == self.id();
    // std provided method: build_hasher(); x.hash(&mut h); h.finish()
    fn hash_one<T: Hash>(&self, x: T) -> (r: u64)
        ensures r == hash_fn(self.id(), x.words());
}

pub trait Hash {
    spec fn words(&self) -> Seq<int>;
    fn hash<H: Hasher>(&self, state: &mut H)
        ensures final(state).written() == old(state).written() + self.words(), final(state).bid() == old(state).bid();
}

impl Hash for u64 {
    open spec fn words(&self) -> Seq<int> { seq![*self as int] }
    #[verifier::external_body]
    fn hash<H: Hasher>(&self, state: &mut H) { unimplemented!() }
}

// std::hash::BuildHasher::hash_one
pub open spec fn hash_one_spec<T: Hash>(bid: int, t: &T) -> u64 { hash_fn(bid, t.words()) }

// std: `impl<T: Hash + ?Sized> Hash for &T` forwards to T
impl<T: Hash> Hash for &T {
    open spec fn words(&self) -> Seq<int> { (**self).words() }
    #[verifier::external_body]
    fn hash<H: Hasher>(&self, state: &mut H) { unimplemented!() }
}
