use vstd::std_specs::cmp::OrdSpec;
// TRUSTED: specifications of std functions that vstd does not cover
pub assume_specification [u64::max_value] () -> (r: u64)
    ensures r == u64::MAX;

// std::cmp::max(a, b): "Returns the second argument if the comparison determines them to be equal."
pub assume_specification<T: core::cmp::Ord> [core::cmp::max] (a: T, b: T) -> (r: T)
    ensures <T as vstd::std_specs::cmp::OrdSpec>::obeys_cmp_spec() ==> r == (if a.cmp_spec(&b) == core::cmp::Ordering::Greater { a } else { b });

