// TRUSTED: specifications of std functions that vstd does not cover
pub assume_specification [u64::max_value] () -> (r: u64)
    ensures r == u64::MAX;
